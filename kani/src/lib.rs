//! Kani harnesses on the REAL memterm crate (path dependency on /repo): loop-free, full-domain
//! proofs of the dispatch tables and the character-set tables.  No Screen is ever constructed here
//! (HashMap-holding state does not terminate under CBMC, DESIGN.md section 2).
#![allow(dead_code)]
pub mod ref_tables;

#[cfg(kani)]
mod proofs {
    use memterm::parser_listener::ParserListener;

    /// what the listener was asked to do: a method id and up to two numeric parameters
    #[derive(Clone, Copy, PartialEq, Eq, Debug)]
    pub struct Call {
        pub id: u8,
        pub a: Option<u32>,
        pub b: Option<u32>,
        pub c: Option<u32>,
        pub d: Option<u32>,
        pub flag: bool,
        pub len: usize,
    }
    pub struct Rec {
        pub n: u32,
        pub last: Call,
    }
    impl Rec {
        pub fn new() -> Self {
            Rec { n: 0, last: Call { id: 0, a: None, b: None, c: None, d: None, flag: false, len: 0 } }
        }
        fn rec(&mut self, id: u8, a: Option<u32>, b: Option<u32>, flag: bool, len: usize) {
            self.n += 1;
            self.last = Call { id, a, b, c: None, d: None, flag, len };
        }
        fn rec_list(&mut self, id: u8, m: &[u32], flag: bool) {
            self.n += 1;
            self.last = Call { id, a: m.get(0).copied(), b: m.get(1).copied(), c: m.get(2).copied(), d: m.get(3).copied(), flag, len: m.len() };
        }
    }
    pub const ALIGN: u8 = 1; pub const DEFCS: u8 = 2; pub const RESET: u8 = 3; pub const INDEX: u8 = 4; pub const LINEFEED: u8 = 5;
    pub const RINDEX: u8 = 6; pub const HTS: u8 = 7; pub const SAVE: u8 = 8; pub const RESTORE: u8 = 9; pub const SO: u8 = 10; pub const SI: u8 = 11;
    pub const BELL: u8 = 12; pub const BS: u8 = 13; pub const TAB: u8 = 14; pub const CR: u8 = 15; pub const DRAW: u8 = 16;
    pub const ICH: u8 = 17; pub const CUU: u8 = 18; pub const CUD: u8 = 19; pub const CUF: u8 = 20; pub const CUB: u8 = 21; pub const CNL: u8 = 22;
    pub const CPL: u8 = 23; pub const CHA: u8 = 24; pub const CUP: u8 = 25; pub const ED: u8 = 26; pub const EL: u8 = 27; pub const IL: u8 = 28;
    pub const DL: u8 = 29; pub const DCH: u8 = 30; pub const ECH: u8 = 31; pub const DA: u8 = 32; pub const VPA: u8 = 33; pub const TBC: u8 = 34;
    pub const SM: u8 = 35; pub const RM: u8 = 36; pub const SGR: u8 = 37; pub const TITLE: u8 = 38; pub const ICON: u8 = 39; pub const STBM: u8 = 40;
    pub const DISPLAY: u8 = 41;

    impl ParserListener for Rec {
        fn alignment_display(&mut self) { self.rec(ALIGN, None, None, false, 0) }
        fn define_charset(&mut self, _code: &str, _mode: &str) { self.rec(DEFCS, None, None, false, 0) }
        fn reset(&mut self) { self.rec(RESET, None, None, false, 0) }
        fn index(&mut self) { self.rec(INDEX, None, None, false, 0) }
        fn linefeed(&mut self) { self.rec(LINEFEED, None, None, false, 0) }
        fn reverse_index(&mut self) { self.rec(RINDEX, None, None, false, 0) }
        fn set_tab_stop(&mut self) { self.rec(HTS, None, None, false, 0) }
        fn save_cursor(&mut self) { self.rec(SAVE, None, None, false, 0) }
        fn restore_cursor(&mut self) { self.rec(RESTORE, None, None, false, 0) }
        fn shift_out(&mut self) { self.rec(SO, None, None, false, 0) }
        fn shift_in(&mut self) { self.rec(SI, None, None, false, 0) }
        fn bell(&mut self) { self.rec(BELL, None, None, false, 0) }
        fn backspace(&mut self) { self.rec(BS, None, None, false, 0) }
        fn tab(&mut self) { self.rec(TAB, None, None, false, 0) }
        fn cariage_return(&mut self) { self.rec(CR, None, None, false, 0) }
        fn draw(&mut self, _input: &str) { self.rec(DRAW, None, None, false, 0) }
        fn insert_characters(&mut self, c: Option<u32>) { self.rec(ICH, c, None, false, 0) }
        fn cursor_up(&mut self, c: Option<u32>) { self.rec(CUU, c, None, false, 0) }
        fn cursor_down(&mut self, c: Option<u32>) { self.rec(CUD, c, None, false, 0) }
        fn cursor_forward(&mut self, c: Option<u32>) { self.rec(CUF, c, None, false, 0) }
        fn cursor_back(&mut self, c: Option<u32>) { self.rec(CUB, c, None, false, 0) }
        fn cursor_down1(&mut self, c: Option<u32>) { self.rec(CNL, c, None, false, 0) }
        fn cursor_up1(&mut self, c: Option<u32>) { self.rec(CPL, c, None, false, 0) }
        fn cursor_to_column(&mut self, c: Option<u32>) { self.rec(CHA, c, None, false, 0) }
        fn cursor_position(&mut self, l: Option<u32>, c: Option<u32>) { self.rec(CUP, l, c, false, 0) }
        fn erase_in_display(&mut self, h: Option<u32>, p: Option<bool>) { self.rec(ED, h, None, p.unwrap_or(false), 0) }
        fn erase_in_line(&mut self, h: Option<u32>, p: Option<bool>) { self.rec(EL, h, None, p.unwrap_or(false), 0) }
        fn insert_lines(&mut self, c: Option<u32>) { self.rec(IL, c, None, false, 0) }
        fn delete_lines(&mut self, c: Option<u32>) { self.rec(DL, c, None, false, 0) }
        fn delete_characters(&mut self, c: Option<u32>) { self.rec(DCH, c, None, false, 0) }
        fn erase_characters(&mut self, c: Option<u32>) { self.rec(ECH, c, None, false, 0) }
        fn report_device_attributes(&mut self, m: Option<u32>, p: Option<bool>) { self.rec(DA, m, None, p.unwrap_or(false), 0) }
        fn cursor_to_line(&mut self, l: Option<u32>) { self.rec(VPA, l, None, false, 0) }
        fn clear_tab_stop(&mut self, h: Option<u32>) { self.rec(TBC, h, None, false, 0) }
        fn set_mode(&mut self, m: &[u32], p: bool) { self.rec_list(SM, m, p) }
        fn reset_mode(&mut self, m: &[u32], p: bool) { self.rec_list(RM, m, p) }
        fn select_graphic_rendition(&mut self, m: &[u32]) { self.rec_list(SGR, m, false) }
        fn set_title(&mut self, _t: &str) { self.rec(TITLE, None, None, false, 0) }
        fn set_icon_name(&mut self, _t: &str) { self.rec(ICON, None, None, false, 0) }
        fn set_margins(&mut self, t: Option<u32>, b: Option<u32>) { self.rec(STBM, t, b, false, 0) }
        fn display(&mut self) -> Vec<String> { Vec::new() }
    }

    fn one_char(buf: &[u8; 1]) -> &str {
        // buf[0] < 0x80 is assumed by every caller: a single ASCII byte is valid UTF-8
        match std::str::from_utf8(buf) { Ok(s) => s, Err(_) => "" }
    }

    /// CSI final byte -> listener method and parameter positions, for EVERY final byte in 0x20..=0x7e,
    /// every parameter list of length 0..=4 with arbitrary u32 values (list length is the one bound: longer lists reach the same slice-indexing code), and both values of the private flag.
    /// The expected table is written from ECMA-48 / the VT100 manual, not from src/control.rs.
    #[kani::proof]
    #[kani::unwind(4)]
    fn csi_dispatch_routes_every_final() {
        let fin: u8 = kani::any();
        kani::assume(fin >= 0x20 && fin <= 0x7e);
        let buf = [fin];
        let p0: u32 = kani::any();
        let p1: u32 = kani::any();
        let p2: u32 = kani::any();
        let p3: u32 = kani::any();
        let len: usize = kani::any();
        kani::assume(len <= 4);
        let private: bool = kani::any();
        let params = [p0, p1, p2, p3];
        let mut r = Rec::new();
        r.csi_dispatch(one_char(&buf), &params[..len], private);
        let a = if len >= 1 { Some(p0) } else { None };
        let b = if len >= 2 { Some(p1) } else { None };
        let c = if len >= 3 { Some(p2) } else { None };
        let d = if len >= 4 { Some(p3) } else { None };
        let one = |id: u8| Call { id, a, b: None, c: None, d: None, flag: false, len: 0 };
        let two = |id: u8| Call { id, a, b, c: None, d: None, flag: false, len: 0 }; // parameters beyond the second are ignored
        let list = |id: u8, flag: bool| Call { id, a, b, c, d, flag, len };
        let expected: Option<Call> = match fin {
            b'@' => Some(one(ICH)),
            b'A' => Some(one(CUU)),
            b'B' => Some(one(CUD)),
            b'C' => Some(one(CUF)),
            b'D' => Some(one(CUB)),
            b'E' => Some(one(CNL)),
            b'F' => Some(one(CPL)),
            b'G' => Some(one(CHA)),
            b'H' => Some(two(CUP)), // first = row, second = column
            b'J' => Some(one(ED)),
            b'K' => Some(one(EL)),
            b'L' => Some(one(IL)),
            b'M' => Some(one(DL)),
            b'P' => Some(one(DCH)),
            b'X' => Some(one(ECH)),
            b'a' => Some(one(CUF)), // HPR
            b'c' => Some(one(DA)),
            b'd' => Some(one(VPA)),
            b'e' => Some(one(CUD)), // VPR
            b'f' => Some(two(CUP)), // HVP
            b'g' => Some(one(TBC)),
            b'h' => Some(list(SM, private)),
            b'l' => Some(list(RM, private)),
            b'm' => Some(list(SGR, false)),
            b'r' => Some(two(STBM)),
            _ => None,
        };
        match expected {
            Some(c) => {
                assert!(r.n == 1);
                assert!(r.last == c);
            }
            None => assert!(r.n == 0), // unknown finals are consumed without effect
        }
    }

    #[kani::proof]
    #[kani::unwind(4)]
    fn escape_dispatch_routes_every_final() {
        let fin: u8 = kani::any();
        kani::assume(fin >= 0x20 && fin <= 0x7e);
        let buf = [fin];
        let mut r = Rec::new();
        r.escape_dispatch(one_char(&buf));
        let expected: Option<u8> = match fin {
            b'c' => Some(RESET),    // RIS
            b'D' => Some(INDEX),    // IND
            b'E' => Some(LINEFEED), // NEL
            b'M' => Some(RINDEX),   // RI
            b'H' => Some(HTS),
            b'7' => Some(SAVE),     // DECSC
            b'8' => Some(RESTORE),  // DECRC
            _ => None,
        };
        match expected {
            Some(id) => {
                assert!(r.n == 1);
                assert!(r.last.id == id);
            }
            None => assert!(r.n == 0),
        }
    }

    #[kani::proof]
    #[kani::unwind(4)]
    fn basic_dispatch_routes_every_c0() {
        let c: u8 = kani::any();
        kani::assume(c < 0x80);
        let buf = [c];
        let mut r = Rec::new();
        r.basic_dispatch(one_char(&buf));
        let expected: Option<u8> = match c {
            0x07 => Some(BELL),
            0x08 => Some(BS),
            0x09 => Some(TAB),
            0x0a | 0x0b | 0x0c => Some(LINEFEED),
            0x0d => Some(CR),
            0x0e => Some(SO),
            0x0f => Some(SI),
            _ => None,
        };
        match expected {
            Some(id) => {
                assert!(r.n == 1);
                assert!(r.last.id == id);
            }
            None => assert!(r.n == 0),
        }
    }

    /// all 4 x 256 table entries, by a symbolic index (full domain)
    #[kani::proof]
    fn charset_tables_match_reference() {
        let i: u8 = kani::any();
        let k = i as usize;
        assert!(memterm::charset::LAT1_MAP[k] as u32 == i as u32);
        assert!(memterm::charset::VT100_MAP[k] as u32 == crate::ref_tables::REF_VT100[k]);
        assert!(memterm::charset::IBMPC_MAP[k] as u32 == crate::ref_tables::REF_CP437[k]);
    }

    /// the string tables and control constants the recogniser depends on (assumed on the Verus side: axiom_control_tables)
    #[kani::proof]
    #[kani::unwind(12)]
    fn control_tables() {
        use memterm::control::*;
        assert!(BASIC.len() == 9 && ALLOWED_IN_CSI.len() == 7 && OSC_TERMINATORS.len() == 3);
        let basic: [u8; 9] = [7, 8, 9, 10, 11, 12, 13, 14, 15]; // BEL BS HT LF VT FF CR SO SI
        let mut i = 0;
        while i < 9 {
            assert!(BASIC[i].len() == 1 && BASIC[i].as_bytes()[0] == basic[i]);
            if i < 7 {
                assert!(ALLOWED_IN_CSI[i].len() == 1 && ALLOWED_IN_CSI[i].as_bytes()[0] == basic[i]);
            }
            i += 1;
        }
        // BEL, ESC \, U+009C (UTF-8: C2 9C)
        assert!(OSC_TERMINATORS[0].as_bytes() == [7u8]);
        assert!(OSC_TERMINATORS[1].as_bytes() == [0x1bu8, 0x5c]);
        assert!(OSC_TERMINATORS[2].as_bytes() == [0xc2u8, 0x9c]);
        assert!(ESC.as_bytes() == [0x1bu8] && CSI.as_bytes() == [0xc2u8, 0x9b] && OSC.as_bytes() == [0xc2u8, 0x9d]);
        assert!(DECALN.as_bytes() == [b'8'] && SI.as_bytes() == [15u8] && SO.as_bytes() == [14u8] && SP.as_bytes() == [b' '] && GREATER.as_bytes() == [b'>']);
        assert!(CAN.as_bytes() == [0x18u8] && SUB.as_bytes() == [0x1au8]);
    }

    #[kani::proof]
    fn mode_constants() {
        assert!(memterm::modes::LNM == 20);
        assert!(memterm::modes::IRM == 4);
        assert!(memterm::modes::DECTCEM == 25 << 5);
        assert!(memterm::modes::DECSCNM == 5 << 5);
        assert!(memterm::modes::DECOM == 6 << 5);
        assert!(memterm::modes::DECAWM == 7 << 5);
        assert!(memterm::modes::DECCOLM == 3 << 5);
    }
}
