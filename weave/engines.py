"""Property-level orchestration: which units/harnesses decide a property, verdict, evidence."""
import glob
import json
import os
import re
import subprocess
import sys
import time

import driver as D

VERIF = D.VERIF
EVID = os.environ.get('VERIF_EVIDENCE_DIR') or os.path.join(VERIF, 'evidence')
VIOL = os.path.join(D.BUILD, 'violations')
REPLAY_BIN = os.path.join(VERIF, 'replay', 'target', 'debug', 'memterm-replay')


def units_for(prop):
    us = []
    for p in sorted(glob.glob(os.path.join(D.CONTRACTS, '*.spec'))):
        t = '\n'.join(l for l in open(p).read().split('\n') if not l.startswith('@import') and not l.startswith('@@'))
        only = re.search(r'(?m)^@only\s+(.*)$', t)
        if only and prop not in only.group(1).split():
            continue
        if re.search(r'\b%s\b' % prop, t) or prop == 'C01':
            us.append(os.path.basename(p)[:-5])
    return us


def imports_for(prop, units):
    """Functions whose contracts a unit deciding `prop` imports (assumes) from another unit: the property
    rests on those contracts, so every obligation of those functions (and of the functions they call in
    their own unit) is an obligation of the property too."""
    sup = {}
    for u in units:
        t = open(os.path.join(D.CONTRACTS, u + '.spec')).read()
        only = re.search(r'(?m)^@@ import-carries:\s*(.*)$', t)
        if only and prop not in only.group(1).split():
            continue
        for m in re.finditer(r'(?m)^@import\s+(\S+)\.spec\s+(.*)$', t):
            sup.setdefault(m.group(1), set()).update(m.group(2).split())
    return sup


def close_support(names, info):
    todo, seen = list(names), set()
    while todo:
        f = todo.pop()
        if f in seen or f not in info:
            continue
        seen.add(f)
        for g in re.findall(r'\bself\s*\.\s*([a-z_0-9]+)\s*\(', __import__('rsscan').mask(info[f].get('text', ''))):
            if g in info and g not in seen:
                todo.append(g)
    return seen


def requires_wf(text, fn):
    m = re.search(r'(?m)^//@FN< %s\n' % re.escape(fn), text)
    if not m:
        return False
    e = text.find('/*@ENTRY:', m.end())
    e2 = text.find('//@FN> ', m.end())
    seg = text[m.end():min(x for x in (e, e2, len(text)) if x >= 0)]
    return re.search(r'\bwf\(\*old\(self\)\)', seg) is not None


def slug(s):
    return re.sub(r'[^A-Za-z0-9_.-]+', '_', s)[:120]


def build_replay_bin():
    """(re)build the replay binary against /repo's current tree; returns path or None"""
    rc, out, err, wall = D.sh(['cargo', 'build', '--offline', '--quiet'], cwd=os.path.join(VERIF, 'replay'),
                              env={'CARGO_NET_OFFLINE': 'true'}, timeout=1200)
    if rc != 0:
        return None
    return REPLAY_BIN


def run_replay_script(path):
    b = build_replay_bin()
    if not b:
        return None, 'replay binary does not build against the current tree'
    rc, out, err, wall = D.sh([b, path, '--quiet'], timeout=120)
    return rc, out


def replay_file(path):
    d = json.load(open(path))
    if d.get('steps'):
        rc, out = run_replay_script(path)
        print(out)
        if rc == 1:
            print('REPLAY: the real code exhibits the failure described by %s' % path)
            return 1
        print('REPLAY: the real code does not exhibit the failure (exit %s)' % rc)
        return 0 if rc == 0 else 2
    print('REPLAY: %s carries no concrete input (no-failing-input-found).' % path)
    print('obligation: %s' % d.get('obligation'))
    print('verifier output:\n%s' % d.get('verus_output'))
    prop = d.get('property')
    print('re-running the check for %s on the current tree ...' % prop)
    return check_property(prop, 'quick', 0)


def verus_failures_on(repo_dir, prop, tier):
    """failing / undecided obligations of `prop` (Verus units only) when the units are woven from `repo_dir`"""
    saved = D.REPO
    D.REPO = repo_dir
    try:
        failing, undec = [], []
        units = units_for(prop)
        support = imports_for(prop, units)
        units += [u for u in sorted(support) if u not in units]
        for unit in units:
            res = D.run_unit(unit, tier)
            info = res['info']
            roots = [f for f, fi in info.items() if prop in fi['props'] and prop not in fi.get('local', [])]
            sup = close_support(list(support.get(unit, ())) + roots, info)
            for e in res['errors']:
                ob = res['obligations'].get(e['obligation'])
                f = info.get(e['fn']) if e['fn'] in info else None
                props = D.props_of(ob, info) if ob else ((f['props'] if f else []) + ['C01'] + (['C09'] if e['obligation'].endswith('/callee_wf') else []))
                if prop in props or e['fn'] in sup:
                    failing.append(e['obligation'])
            for fn, fi in info.items():
                if fi.get('degraded') and (prop in fi['props'] or prop in fi.get('label_props', []) or prop == 'C01' or fn in sup):
                    undec.append(fn)
        return sorted(set(failing)), sorted(set(undec))
    finally:
        D.REPO = saved


def sensitivity_selftest(prop, tier, seed):
    """thorough tier only: seeded property-breaking changes recorded for `prop` (seeded/<id>/; at most VERIF_SENS_MAX = 3 per
    run, rotated by the seed) are applied to a scratch
    copy of /repo's current source (under /tmp, removed afterwards) and the Verus units are re-run on it.  This does not
    decide the property; it measures, on every thorough run, that the obligations still notice realistic breakage."""
    import shutil
    import tempfile
    out = []
    metas = sorted(glob.glob(os.path.join(VERIF, 'seeded', '*', 'meta.json')))
    if seed:
        metas = metas[seed % len(metas):] + metas[:seed % len(metas)] if metas else metas
    budget = int(os.environ.get('VERIF_SENS_MAX', '3'))   # changes per run (the seed rotates which ones): keeps a thorough run to minutes
    for mp in metas:
        m = json.load(open(mp))
        if m.get('property') != prop:
            continue
        if len(out) >= budget:
            break
        scratch = tempfile.mkdtemp(prefix='verif_sens_%s_' % m['id'])
        try:
            shutil.copytree(os.path.join(D.REPO, 'src'), os.path.join(scratch, 'src'))
            for f in ('Cargo.toml', 'Cargo.lock'):
                shutil.copy(os.path.join(D.REPO, f), scratch)
            rc, o, e, w = D.sh(['git', 'apply', '--unsafe-paths', '--directory=' + scratch, os.path.join(os.path.dirname(mp), 'patch.diff')], cwd='/')
            if rc != 0:
                rc, o, e, w = D.sh(['patch', '-p1', '-s', '-i', os.path.join(os.path.dirname(mp), 'patch.diff')], cwd=scratch)
            if rc != 0:
                out.append(dict(id=m['id'], status='patch-does-not-apply-to-current-tree'))
                continue
            try:
                failing, undec = verus_failures_on(scratch, prop, tier)
                status = 'detected' if failing else ('undecided' if undec else 'not-detected-by-the-verus-units')
                out.append(dict(id=m['id'], status=status, failing_obligations=failing[:6], undecided_functions=undec[:6]))
            except D.Undecided as ex:
                out.append(dict(id=m['id'], status='undecided', reason=str(ex)[:200]))
        finally:
            shutil.rmtree(scratch, ignore_errors=True)
    return out


def check_property(prop, tier, seed):
    t0 = time.time()
    os.makedirs(EVID, exist_ok=True)
    os.makedirs(VIOL, exist_ok=True)
    units = units_for(prop)
    support = imports_for(prop, units)
    units += [u for u in sorted(support) if u not in units]
    known, fixed = D.load_known()
    known_here = [k for k in known if k['property'] == prop]
    all_obl = []   # (id, status, detail)
    failing = []
    fn_cover = []
    trusted = []
    shim_instances = []
    cmds = []
    solver_ms = 0
    canary_info = []
    errors_other = []
    undecided = []
    for unit in units:
        res = D.run_unit(unit, tier)
        can = D.run_canary(res, tier)
        if can['vacuous']:
            raise D.Undecided('vacuity guard: assert(false) at the entry of %s did not fail (contradictory precondition?)' % can['vacuous'])
        canary_info.append(dict(unit=unit, functions=can['checked'], canaries_failed_as_required=can['failed_as_expected']))
        cmds.append(res['cmd'])
        solver_ms += res['times'].get('smt', {}).get('smt-run', 0)
        info = res['info']
        # modular proofs: a function's contract is proved against its callees' contracts, so the property of
        # a function rests on every obligation of the functions it (transitively) calls in this unit
        roots = [f for f, fi in info.items() if prop in fi['props'] and prop not in fi.get('local', [])]
        sup = close_support(list(support.get(unit, ())) + roots, info)
        errs_by_ob = {}
        for e in res['errors']:
            errs_by_ob.setdefault(e['obligation'], []).append(e)
        # obligations of this property
        mine = {}
        for oid, ob in res['obligations'].items():
            if ob['fn'] == '__lemmas':
                pr = ob['props_override']
            else:
                pr = D.props_of(ob, info)
            if (prop in pr or ob['fn'] in sup) and not (info.get(ob['fn']) or {}).get('extern'):
                mine[oid] = ob
        # "for every reachable state" is proved as "for every state satisfying the representation invariant":
        # that rests on every operation of the unit re-establishing the invariant, so those clauses are
        # obligations of every property whose functions require it
        if any(requires_wf(res['text'], f) for f in set(roots) | sup):
            for oid, ob in res['obligations'].items():
                if ob.get('sec') == 'sig' and ob['label'] in ('wf', 'no_hidden_cells') and not (info.get(ob['fn']) or {}).get('extern'):
                    mine.setdefault(oid, ob)
        for fn, fi in info.items():
            if fi['extern']:
                continue
            if fi.get('degraded') and (prop in fi['props'] or prop in fi.get('label_props', []) or prop == 'C01' or fn in sup or any(o['fn'] == fn for o in mine.values())):
                undecided.append('%s: %s' % (fn, fi['degraded']))
                if not any(o['fn'] == fn for o in mine.values()):
                    # its tagged obligations live in woven blocks that a degraded function does not get: count them as one
                    mine['%s/contract' % fn] = dict(fn=fn, sec='sig', label='contract', clauses=['every obligation of %s tagged with this property (function not verified on this tree)' % fn])
            if prop in fi['props'] or prop == 'C01' or fn in sup:
                mine['%s/safety' % fn] = dict(fn=fn, sec='body', label='safety', clauses=['no overflow/underflow, no reachable panic!/unwrap/expect failure, every callee precondition holds, indices in bounds'])
        # errors that map to an obligation nobody declared (unlabelled ghost text): attribute to the function
        for oid, es in errs_by_ob.items():
            if oid.endswith('/callee_wf'):
                f = es[0]['fn']
                if f in info and (prop == 'C09' or prop == 'C01' or prop in info[f]['props'] or f in sup):
                    mine[oid] = dict(fn=f, sec='body', label='callee_wf', clauses=['the representation invariant required by a callee holds at the call'])
                continue
            if oid not in res['obligations'] and not oid.endswith('/safety'):
                f = es[0]['fn']
                if f in info and (prop in info[f]['props'] or f in sup):
                    mine[oid] = dict(fn=f, sec='?', label='unlabelled', clauses=[es[0]['where']])
        # Verus assumes a failed invariant / assertion / callee precondition from that point on, so the
        # postconditions of the same function are then proved from a false lemma: not decided
        internal_fail = {}
        for oid, es in errs_by_ob.items():
            if '/sig#' not in oid and es[0].get('fn') in info:
                internal_fail.setdefault(es[0]['fn'], []).append(oid)
        # functions whose remaining obligations hit the solver's resource limit: only the reported failures are decided
        for f_, why_ in (res.get('partial') or {}).items():
            internal_fail.setdefault(f_, []).append('%s/resource-limit' % f_)
        for oid, ob in sorted(mine.items()):
            fr = res['fres'].get(ob['fn'])
            es = errs_by_ob.get(oid, [])
            if (info.get(ob['fn']) or {}).get('degraded'):
                status = 'UNDECIDED'
            elif not es and ob.get('sec') == 'sig' and internal_fail.get(ob['fn']):
                status = 'UNDECIDED'
                undecided.append('%s: postconditions rest on failed %s' % (ob['fn'], ', '.join(sorted(internal_fail[ob['fn']])[:4])))
            elif es:
                status = 'FAILED'
                failing.append(dict(unit=unit, obligation=oid, errors=es, fn=ob['fn'], source=info.get(ob['fn'], {}).get('text', '')))
            else:
                status = 'discharged'
            all_obl.append(dict(id=oid, unit=unit, status=status, clause=' '.join(ob.get('clauses', []))[:300],
                                fn_solver_ms=(fr or {}).get('time_ms'), backend='verus/z3'))
        for fn, fi in info.items():
            fr = res['fres'].get(fn, {})
            fn_cover.append(dict(fn=fn, unit=unit, src='%s:%d' % (fi['src'], fi['line']), extern_assumed=fi['extern'],
                                 verified=bool(fr.get('success')) if not fi['extern'] else None,
                                 solver_ms=fr.get('time_ms'), rlimit=fr.get('rlimit'), shims=fi['shims'], props=fi['props']))
        for t in res['trusted']:
            trusted.append('%s :: %s' % (t, res['allow'].get(t, '')))
        for m in re.finditer(r'/\*@S<([A-Za-z0-9_-]+):([A-Za-z0-9+/=]*)\*/', res['text']):
            import base64
            shim_instances.append(dict(shim=m.group(1), original=base64.b64decode(m.group(2)).decode()[:200]))
        errors_other += [e for e in res['errors'] if e['obligation'] not in mine]

    # Kani side
    kani_results = []
    try:
        import kani_engine
        kani_results = kani_engine.run_for(prop, tier)
    except ImportError:
        pass
    for kr in kani_results:
        cmds.append(kr['cmd'])
        all_obl.append(dict(id=kr['id'], unit='kani', status='discharged' if kr['ok'] else 'FAILED', clause=kr['what'],
                            fn_solver_ms=int(kr['wall'] * 1000), backend='kani/cbmc'))
        if not kr['ok']:
            failing.append(dict(unit='kani', obligation=kr['id'], errors=[dict(kind='kani', where=kr['what'], rendered=kr['output'][-4000:], message='Kani harness failed')], fn=kr['id'], source='', witness=kr.get('witness')))

    if not all_obl:
        raise D.Undecided('no obligation is tagged with %s (vacuous check)' % prop)

    violations = []
    known_lines = []
    for f in failing:
        k = [k for k in known_here if k['obligation'] == f['obligation']]
        if k:
            known_lines.append('KNOWN-FINDING: property=%s %s [%s]' % (prop, k[0]['what'], f['obligation']))
            continue
        violations.append(f)
    out_lines = []
    for f in violations:
        rp = os.path.join(VIOL, '%s__%s.json' % (prop, slug(f['obligation'])))
        witness = f.get('witness')
        if witness is None:
            try:
                import witness as WS
                witness = WS.search(f, prop, tier, seed)
            except ImportError:
                witness = None
        doc = dict(property=prop, obligation=f['obligation'], unit=f['unit'],
                   failed=[dict(kind=e['kind'], where=e['where']) for e in f['errors']],
                   verus_output='\n'.join(e['rendered'] for e in f['errors']),
                   function_source=f['source'],
                   note='obligation discharged on the baseline tree and failing now' if True else '')
        suffix = ''
        if witness:
            doc.update(witness)
        else:
            doc['steps'] = None
            suffix = ' no-failing-input-found'
        json.dump(doc, open(rp, 'w'), indent=1)
        out_lines.append('VIOLATION property=%s replay=%s%s' % (prop, rp, suffix))

    sens = None
    if tier == 'thorough' and not violations and not undecided:
        sens = sensitivity_selftest(prop, tier, seed)
    discharged = sum(1 for o in all_obl if o['status'] == 'discharged')
    ev = dict(
        property_id=prop, tier=tier, seed=seed, level='proof',
        coverage=dict(
            obligations=len(all_obl), discharged=discharged,
            checker_cmd=' ; '.join(cmds),
            trusted_base=sorted(set(trusted)),
            samples=all_obl[:400],
            functions_under_contract=[f for f in fn_cover if not f['extern_assumed']],
            functions_assumed=[f for f in fn_cover if f['extern_assumed']],
            shim_instances=shim_instances,
            vacuity_guards=canary_info,
            solver_time_ms=solver_ms,
            failing_obligations=[dict(obligation=f['obligation'], known=(f not in violations)) for f in failing],
            undecided_functions=sorted(set(undecided)),
            sensitivity_selftest=sens,
            failing_elsewhere_not_counted=[e['obligation'] for e in errors_other][:50],
            explanation=PROP_NOTES.get(prop, ''),
        ),
        assumptions=sorted(set(trusted)) + GLOBAL_ASSUMPTIONS,
        wall_s=round(time.time() - t0, 2),
        violations=len(violations),
    )
    json.dump(ev, open(os.path.join(EVID, prop + '.json'), 'w'), indent=1)
    for l in known_lines:
        print(l)
    for l in out_lines:
        print(l)
    if sens is not None:
        print('%s: sensitivity self-test on %d seeded changes: %s' % (prop, len(sens), ', '.join('%s=%s' % (x['id'], x['status']) for x in sens)))
    print('%s: %d/%d obligations discharged (%d known findings, %d violations, %d undecided) in %.1fs'
          % (prop, discharged, len(all_obl), len(known_lines), len(violations), sum(1 for o in all_obl if o['status'] == 'UNDECIDED'), time.time() - t0))
    if violations:
        return 1
    if undecided:
        print('UNDECIDED property=%s: obligations not decided on this tree (function outside the verifier\'s reach and its contract assumed, or proof resting on a failed obligation): %s' % (prop, '; '.join(sorted(set(undecided)))))
        return 2
    return 0


GLOBAL_ASSUMPTIONS = [
    'Verus 0.2026.09.13 / Z3 sound; rustc 1.98.1 compiles the woven text as it compiles the original',
    'vstd specifications of HashMap/HashSet/Vec/Option/String/ranges',
    'geometry cap: 1 <= columns, lines <= 65535; API arguments absent or <= 9999',
    'machine arithmetic is NOT treated as mathematical: every u32/i32/usize operation carries an overflow obligation',
    'induction over call histories (every operation requires and re-establishes wf) is argued in DESIGN.md, not machine-checked',
]

PROP_NOTES = {}
