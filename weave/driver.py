"""Driver: weave -> Verus (main pass + canary pass) -> obligation map -> verdict per property.
Stdlib only."""
import hashlib
import json
import os
import re
import subprocess
import sys
import time

HERE = os.path.dirname(os.path.abspath(__file__))
VERIF = os.path.dirname(HERE)
sys.path.insert(0, HERE)
sys.path.insert(0, os.path.join(VERIF, 'contracts'))

import weave as W  # noqa: E402
from rsscan import ScanError  # noqa: E402

REPO = os.environ.get('VERIF_REPO', '/repo')
BUILD = os.environ.get('VERIF_BUILD') or os.path.join(VERIF, 'build')
CACHE = os.path.join(VERIF, 'build', 'cache')
CONTRACTS = os.path.join(VERIF, 'contracts')


class Undecided(Exception):
    """machinery could not decide (tool limit, lost anchor, vacuity, ...) -> exit 2"""


def write_atomic(path, text):
    """checks may run concurrently and share build/<unit>/: never let a reader see a half-written file"""
    tmp = '%s.%d.tmp' % (path, os.getpid())
    with open(tmp, 'w') as f:
        f.write(text)
    os.replace(tmp, path)


def cached_verus(cmd, path, cwd):
    """Verus is deterministic for a given input text, command line and version: the result of a run is
    cached under build/cache keyed by sha256(woven text + command).  The woven text is rebuilt from /repo's
    working tree on every run, so a change to the source or to a contract changes the key."""
    if os.environ.get('VERIF_NO_CACHE'):
        return sh(cmd, cwd=cwd, timeout=3600) + (False,)
    text = open(path, 'rb').read()
    key = hashlib.sha256(text + b'\0' + ' '.join(cmd[2:]).encode() + b'\0' + os.path.basename(path).encode()).hexdigest()
    cdir = CACHE
    os.makedirs(cdir, exist_ok=True)
    cp = os.path.join(cdir, key + '.json')
    if os.path.exists(cp):
        try:
            d = json.load(open(cp))
            return d['rc'], d['out'], d['err'], d['wall'], True
        except (ValueError, KeyError):
            pass
    rc, out, err, wall = sh(cmd, cwd=cwd, timeout=3600)
    if 'verification-results' not in out and '"message"' not in err:
        # no verdict and no diagnostic: Verus itself died (seen when many instances start at the same moment): once more
        time.sleep(2)
        rc, out, err, wall = sh(cmd, cwd=cwd, timeout=3600)
    if rc < 0 or 'verification-results' not in out and '"message"' not in err:
        # killed by a signal (OOM killer, an operator) or no output at all: not a result of Verus on this text -- never cache it
        return rc, out, err, wall, False
    tmp = cp + '.%d.tmp' % os.getpid()
    json.dump(dict(rc=rc, out=out, err=err, wall=wall), open(tmp, 'w'))
    os.replace(tmp, cp)
    return rc, out, err, wall, False


def sh(cmd, cwd=None, timeout=None, env=None):
    e = dict(os.environ)
    if env:
        e.update(env)
    t0 = time.time()
    p = subprocess.run(cmd, cwd=cwd, stdout=subprocess.PIPE, stderr=subprocess.PIPE, text=True, timeout=timeout, env=e)
    return p.returncode, p.stdout, p.stderr, time.time() - t0


# ---------------------------------------------------------------------------
# woven file analysis


def analyse_woven(text):
    """Returns (lines, fn_of_line, block_of_line, label_of_line, obligations)
    obligations: dict id -> dict(fn, sec, label, props_override, clauses[])"""
    lines = text.split('\n')
    fn_of = [None] * (len(lines) + 2)
    blk_of = [None] * (len(lines) + 2)
    lab_of = [None] * (len(lines) + 2)
    obligations = {}
    cur_fn = None
    cur_blk = None
    cur_lab = None
    cur_lemma = None
    for i, l in enumerate(lines, 1):
        m = re.match(r'pub proof fn (\w+).*//#lemma:\s*([A-Z0-9 ,]+)\s*$', l)
        if m:
            cur_lemma = m.group(1)
            obligations['lemma/%s' % cur_lemma] = dict(fn='__lemmas', sec='lemma', label=cur_lemma,
                                                       props_override=[p for p in re.split(r'[ ,]+', m.group(2)) if p], clauses=[re.sub(r'\s*//#.*$', '', l).strip()])
        if cur_lemma:
            fn_of[i] = 'lemma:' + cur_lemma
            if l.startswith('}'):
                cur_lemma = None
            continue
        m = re.match(r'//@FN< (\w+)', l)
        if m:
            cur_fn = m.group(1)
        if re.match(r'//@FN> ', l):
            cur_fn = None
        m = re.match(r'//@W< fn=(\S+) sec=(\S+)', l)
        if m:
            cur_blk = (m.group(1), m.group(2))
            cur_lab = None
        if l.startswith('//@W>'):
            cur_blk = None
            cur_lab = None
        fn_of[i] = cur_fn
        blk_of[i] = cur_blk
        if cur_blk:
            m = re.search(r'//#([A-Za-z0-9_]+)(?::\s*(\+?[A-Z0-9 ,]+))?\s*$', l)
            if m:
                cur_lab = (m.group(1), [p for p in re.split(r'[ ,]+', (m.group(2) or '').replace('+', '+ ')) if p])
                oid = '%s/%s#%s' % (cur_blk[0], cur_blk[1], cur_lab[0])
                ob = obligations.setdefault(oid, dict(fn=cur_blk[0], sec=cur_blk[1], label=cur_lab[0], props_override=[], clauses=[]))
                for p in cur_lab[1]:
                    if p not in ob['props_override']:
                        ob['props_override'].append(p)
                ob['clauses'].append(re.sub(r'\s*//#.*$', '', l).strip())
            lab_of[i] = cur_lab
    return lines, fn_of, blk_of, lab_of, obligations


def parse_diagnostics(stderr):
    diags = []
    other = []
    for l in stderr.split('\n'):
        l = l.strip()
        if l.startswith('{'):
            try:
                d = json.loads(l)
            except ValueError:
                other.append(l)
                continue
            diags.append(d)
        elif l and not l.startswith('WARNING conda'):
            other.append(l)
    return diags, other


RUST_ERR = re.compile(r'^E\d{4}$')


def classify(diags):
    """split diagnostics into verification failures and compile/tool errors"""
    verif, tool = [], []
    for d in diags:
        if d.get('level') != 'error':
            continue
        msg = d.get('message', '')
        if msg.startswith('aborting due to'):
            continue
        code = (d.get('code') or {}).get('code') if d.get('code') else None
        vmsgs = ('postcondition not satisfied', 'precondition not satisfied', 'assertion failed', 'invariant not satisfied',
                 'possible arithmetic underflow/overflow', 'possible division by zero', 'possible bit shift underflow/overflow',
                 'decreases not satisfied', 'could not prove termination', 'recommendation not met', 'assertion failure',
                 'index out of bounds', 'possible', 'loop invariant', 'cannot show', 'unable to prove', 'failed to prove',
                 'might not be allowed', 'constructed value may fail to meet its declared type invariant')
        if code is None and any(msg.startswith(v) or (v in msg and v.startswith('possible')) for v in vmsgs):
            verif.append(d)
        else:
            tool.append(d)
    return verif, tool


def map_error(d, lines, fn_of, blk_of, lab_of, fname):
    """-> (obligation id, kind, where-text, fn)"""
    msg = d['message']
    spans = [s for s in d.get('spans', []) if os.path.basename(s['file_name']) == fname]
    prim = [s for s in spans if s.get('is_primary')]
    sec = [s for s in spans if not s.get('is_primary')]
    # function = the function containing the code location (for postconditions the secondary span, else primary)
    def fn_at(s):
        return fn_of[s['line_start']] if s['line_start'] < len(fn_of) else None
    where = None
    if msg.startswith('precondition not satisfied'):
        # primary = call site (in source or woven text), secondary = callee's requires clause
        s0 = prim[0] if prim else (spans[0] if spans else None)
        f = fn_at(s0) if s0 else None
        callee = ''
        for s in sec:
            b = blk_of[s['line_start']]
            if b:
                callee = b[0]
        where = lines[s0['line_start'] - 1].strip() if s0 else ''
        # a callee's `wf(...)` precondition failing means the representation invariant is broken at that point
        wf_pre = any(blk_of[s['line_start']] and re.search(r'\bwf\(', lines[s['line_start'] - 1]) for s in sec)
        if wf_pre:
            return '%s/callee_wf' % f, 'precondition', 'wf required by %s does not hold at: %s' % (callee, where), f
        # the failing call is a lemma call INSIDE woven contract text: Verus assumes the lemma's conclusion from there on, so
        # the labelled assertion that follows it in the same woven block passes vacuously -- the failure belongs to that label
        # (else to the nearest label before it), not to the function's generic safety obligation
        b = blk_of[s0['line_start']] if s0 and s0['line_start'] < len(blk_of) else None
        if b:
            lab = None
            k = s0['line_start']
            while k < len(blk_of) and blk_of[k] == b:
                if lab_of[k] and re.search(r'//#', lines[k - 1]):
                    lab = lab_of[k]
                    break
                k += 1
            k = s0['line_start']
            while lab is None and k > 0 and blk_of[k] == b:
                if lab_of[k]:
                    lab = lab_of[k]
                    break
                k -= 1
            label = lab[0] if lab else 'unlabelled'
            return '%s/%s#%s' % (b[0], b[1], label), 'precondition', 'lemma call %s at: %s' % (callee, where), b[0]
        return '%s/safety' % f, 'precondition', 'call %s at: %s' % (callee, where), f
    # any span inside a woven block with a label?
    for s in prim + sec:
        b = blk_of[s['line_start']]
        if b:
            # nearest label at or before this line, inside the same block
            ln = s['line_start']
            lab = None
            # a clause may span several lines with its label at the end of the last one
            for k in range(s['line_start'], min(s.get('line_end', ln), len(lab_of) - 1) + 1):
                if blk_of[k] == b and lab_of[k] and re.search(r'//#', lines[k - 1]):
                    lab = lab_of[k]
                    break
            k = ln
            while lab is None and k > 0 and blk_of[k] == b:
                if lab_of[k]:
                    lab = lab_of[k]
                    break
                k -= 1
            label = lab[0] if lab else 'unlabelled'
            return '%s/%s#%s' % (b[0], b[1], label), msg, lines[ln - 1].strip(), b[0]
    s0 = prim[0] if prim else (spans[0] if spans else None)
    f = fn_at(s0) if s0 else None
    where = lines[s0['line_start'] - 1].strip() if s0 else ''
    if f and f.startswith('lemma:'):
        return 'lemma/%s' % f[6:], msg, where, '__lemmas'
    return '%s/safety' % f, msg, where, f


# ---------------------------------------------------------------------------
# trusted-base scan

TRUST_PATTERNS = [r'\bassume\s*\(', r'\badmit\s*\(', r'external_body', r'assume_specification', r'\buninterp\b',
                  r'external_type_specification', r'#\[verifier::external\b', r'exec_allows_no_decreases_clause', r'\bexternal_fn_specification\b']


def trusted_scan(text):
    from rsscan import mask
    m = mask(text)
    found = []
    for mm in re.finditer(r'assume_specification\s*(?:<[^\[]*>)?\s*\[((?:[^\[\]]|\[[^\[\]]*\])+)\]', m, re.S):
        found.append('assume_specification[%s]' % re.sub(r'\s+', ' ', mm.group(1).strip()))
    for mm in re.finditer(r'external_type_specification\]\s*(?:#\[[^\]]*\]\s*)*pub struct \w+(?:<[^>]*>)?\((\w+)', m):
        found.append('external_type_specification %s' % mm.group(1))
    for mm in re.finditer(r'external_body\]\s*(?:#\[[^\]]*\]\s*)*(?:pub\s+)?(?:(?:proof|exec|spec)\s+)?fn\s+(\w+)', m):
        found.append('external_body fn %s' % mm.group(1))
    for mm in re.finditer(r'external_body\]\s*(?:#\[[^\]]*\]\s*)*pub\s+struct\s+(\w+)', m):
        if not mm.group(1).startswith('Ex'):
            found.append('external_body struct %s' % mm.group(1))
    for mm in re.finditer(r'uninterp\s+spec\s+fn\s+(\w+)', m):
        found.append('uninterp spec fn %s' % mm.group(1))
    for mm in re.finditer(r'exec_allows_no_decreases_clause\]\s*(?:#\[[^\]]*\]\s*)*(?:pub\s+)?fn\s+(\w+)', m):
        found.append('exec_allows_no_decreases_clause fn %s' % mm.group(1))
    for mm in re.finditer(r'\b(assume|admit)\s*\(', m):
        line_no = m.count('\n', 0, mm.start()) + 1
        # an assume inside a woven `cases` block is one arm of a case split whose exhaustiveness is asserted in the same block
        before = text[:mm.start()]
        blk = re.findall(r'//@W< fn=(\S+) sec=(\S+)', before)
        if blk and blk[-1][1].startswith('cases') and before.rfind('//@W<') > before.rfind('//@W>'):
            found.append('case-split assume in %s' % blk[-1][0])
        else:
            found.append('%s(...) at line %d' % (mm.group(1), line_no))
    for mm in re.finditer(r'#\[verifier::external\]', m):
        found.append('verifier::external at line %d' % (m.count('\n', 0, mm.start()) + 1))
    n_markers = len(re.findall(r'external_body|assume_specification|external_type_specification|\buninterp\b|exec_allows_no_decreases_clause', m))
    n_markers -= len([l for l in m.split('\n') if 'external_type_specification' in l and 'external_body' in l])
    if n_markers != len([f for f in found if not f.startswith(('assume(', 'admit(', 'verifier::external ', 'case-split assume'))]):
        found.append('UNPARSED trusted marker (scan found %d markers)' % n_markers)
    return sorted(set(found))


def load_allow():
    p = os.path.join(CONTRACTS, 'trusted.allow')
    allow = {}
    if os.path.exists(p):
        for l in open(p):
            l = l.rstrip('\n')
            if not l.strip() or l.startswith('#'):
                continue
            item, _, why = l.partition(' :: ')
            allow[item.strip()] = why.strip()
    return allow


# ---------------------------------------------------------------------------
# running a unit


def verus_cmd(path, tier, extra=()):
    rl = '60' if tier == 'thorough' else '30'
    return ['verus', path, '--output-json', '--time', '--multiple-errors', '50', '--rlimit', rl,
            '--error-format=json', '--num-threads', '8'] + list(extra)


def run_unit(unit, tier='quick', tag='main', solver=None):
    import shims
    os.makedirs(os.path.join(BUILD, unit), exist_ok=True)
    spec = os.path.join(CONTRACTS, unit + '.spec')
    t0 = time.time()
    force = {}
    auto_consts = []
    attempts = 0
    while True:
        attempts += 1
        try:
            u, text, info = W.build_unit(spec, REPO, CONTRACTS, shims.SHIMS, force, 0, auto_consts)
        except (W.WeaveError, ScanError) as e:
            raise Undecided('weave error in unit %s: %s' % (unit, e))
        for f, fi in info.items():
            if fi.get('degraded'):
                force[f] = fi['degraded']
        fname = '%s_%s.rs' % (unit, tag)
        path = os.path.join(BUILD, unit, fname)
        write_atomic(path, text)
        lines, fn_of, blk_of, lab_of, obligations = analyse_woven(text)

        # trusted-base scan against the allow-list
        trusted = trusted_scan(text)
        allow = load_allow()
        forced_names = set(force) | set(info[f].get('src_name') for f in force if f in info)
        forced_names |= set('%s_init' % n for n in list(forced_names) if n)   # static-to-fn functions are named <STATIC>_init
        forced_names |= set(fi.get('src_name') for fi in info.values() if fi.get('imported'))
        unknown = [t for t in trusted if t not in allow and not (t.startswith('external_body fn ') and t.split()[-1] in forced_names)]
        if unknown:
            raise Undecided('unit %s: trusted items not in contracts/trusted.allow: %s' % (unit, unknown))

        extra = ['-V', 'cvc5'] if solver == 'cvc5' else []
        cmd = verus_cmd(path, tier, extra)
        if getattr(u, 'rlimit', None):
            cmd[cmd.index('--rlimit') + 1] = u.rlimit
        rc, out, err, wall, was_cached = cached_verus(cmd, path, os.path.join(BUILD, unit))
        diags, other = parse_diagnostics(err)
        verif_errs, tool_errs = classify(diags)
        try:
            oj = json.loads(out[out.index('{'):]) if '{' in out else {}
        except ValueError:
            oj = {}
        # a function for which the solver reported concrete failed obligations AND ran out of its resource limit on the
        # rest: the failures stand (they are reported as such); its other obligations are undecided, the function is not
        # swapped for its assumed contract
        partial = {}
        kept = []
        for d in tool_errs:
            m_ = d.get('message') or ''
            if 'Resource limit' in m_ or 'rlimit' in m_:
                fns = set(fn_of[sp['line_start']] for sp in d.get('spans', [])
                          if os.path.basename(sp['file_name']) == fname and sp['line_start'] < len(fn_of) and fn_of[sp['line_start']])
                hit = [f for f in fns if any(map_error(v, lines, fn_of, blk_of, lab_of, fname)[3] == f for v in verif_errs)]
                if hit:
                    for f in hit:
                        partial[f] = m_
                    continue
            kept.append(d)
        tool_errs = kept
        if tool_errs or not oj.get('verification-results'):
            # attribute compile errors / unsupported constructs to the function that contains them and retry with
            # that function's contract assumed (its obligations become UNDECIDED, the rest of the unit is still decided)
            culprits = set()
            for d in tool_errs:
                for sp in d.get('spans', []):
                    if os.path.basename(sp['file_name']) == fname and sp['line_start'] < len(fn_of) and fn_of[sp['line_start']]:
                        culprits.add(fn_of[sp['line_start']])
            culprits = [c for c in culprits if c not in force and c in info and not info[c]['extern']]
            # a function that names a top-level constant of its own source file which the unit does not extract yet
            # (a literal given a name): extract the constant verbatim and try again before giving the function up
            added = False
            for d in tool_errs:
                mm = re.search(r'cannot find value `([A-Z][A-Z0-9_]*)` in this scope', d.get('message') or '')
                if not mm or attempts > 6:
                    continue
                for c in culprits:
                    rel = info[c]['src']
                    try:
                        srctext = open(os.path.join(REPO, rel), encoding='utf-8').read()
                    except OSError:
                        continue
                    if re.search(r'(?m)^(pub(\([a-z]+\))?\s+)?const\s+%s\s*:\s*(usize|u8|u16|u32|u64|i32|i64|bool|char)\s*=' % mm.group(1), srctext) \
                            and (rel, mm.group(1)) not in auto_consts:
                        auto_consts.append((rel, mm.group(1)))
                        added = True
            if added:
                continue
            if culprits and attempts <= 6:
                for c in culprits:
                    msg = [d.get('message') for d in tool_errs if any(os.path.basename(sp['file_name']) == fname and fn_of[min(sp['line_start'], len(fn_of) - 1)] == c for sp in d.get('spans', []))]
                    force[c] = 'verus: %s' % (msg[0] if msg else 'tool error')
                continue
            msgs = [d.get('rendered') or d.get('message') for d in tool_errs][:5]
            raise Undecided('unit %s: Verus did not get to verification (compile error / unsupported construct / internal error):\n%s\n%s'
                            % (unit, '\n'.join(m or '' for m in msgs), '\n'.join(other[:10])))
        break
    # per-function results
    fres = {}
    smt = oj.get('times-ms', {}).get('smt', {})
    for mt in smt.get('smt-run-module-times', []):
        for fb in mt.get('function-breakdown', []):
            full = fb['function']
            nm = None
            for key, fi in info.items():
                if full.endswith('::%s::%s' % (fi.get('implname'), fi.get('src_name'))) or \
                        full in ('%s::%s' % (fname[:-3], fi.get('src_name')), '%s::%s_init' % (fname[:-3], fi.get('src_name'))) or \
                        (fi.get('src_name') == full.split('::')[-1] and 'impl&%' in full and sum(1 for k2, f2 in info.items() if f2.get('src_name') == fi.get('src_name')) == 1):
                    nm = key
            if full.startswith(fname[:-3] + '::') and nm in info and fb.get('mode:') == 'exec':
                fres[nm] = dict(success=fb.get('success'), time_ms=fb.get('time'), rlimit=fb.get('rlimit'))
            elif full.startswith(fname[:-3] + '::'):
                fres['~' + full] = dict(success=fb.get('success'), time_ms=fb.get('time'), rlimit=fb.get('rlimit'), mode=fb.get('mode:'))
    errors = []
    for d in verif_errs:
        oid, kind, where, f = map_error(d, lines, fn_of, blk_of, lab_of, fname)
        rl_hit = 'rlimit' in (d.get('message') or '') or 'resource limit' in (d.get('rendered') or '')
        errors.append(dict(obligation=oid, kind=kind, where=where, fn=f, rendered=d.get('rendered', ''), message=d['message'], rlimit=rl_hit))
    # resource-limit / timeouts appear as errors with specific messages
    for d in diags:
        m = d.get('message', '')
        if 'Resource limit' in m or 'rlimit' in m or 'timed out' in m.lower():
            if m in partial.values():
                continue
            raise Undecided('unit %s: solver resource limit: %s' % (unit, m))
    # case-split units (@cases): the same functions are verified once per case, each variant assuming one case after
    # asserting that the cases are exhaustive; an obligation is discharged only if it is discharged in every variant
    n_var = getattr(u, 'n_variants', 1)
    if n_var > 1:
        from concurrent.futures import ThreadPoolExecutor

        def one(k):
            uk, tk, ik = W.build_unit(spec, REPO, CONTRACTS, shims.SHIMS, force, k, auto_consts)
            fk = '%s_%s_v%d.rs' % (unit, tag, k)
            pk = os.path.join(BUILD, unit, fk)
            write_atomic(pk, tk)
            ck = verus_cmd(pk, tier, extra)
            if getattr(u, 'rlimit', None):
                ck[ck.index('--rlimit') + 1] = u.rlimit
            rck, outk, errk, wallk, _ = cached_verus(ck, pk, os.path.join(BUILD, unit))
            return k, tk, fk, outk, errk, wallk
        with ThreadPoolExecutor(max_workers=min(8, n_var - 1)) as ex:
            results = list(ex.map(one, range(1, n_var)))
        for k, tk, fk, outk, errk, wallk in results:
            dk, _ = parse_diagnostics(errk)
            vk, toolk = classify(dk)
            try:
                ojk = json.loads(outk[outk.index('{'):]) if '{' in outk else {}
            except ValueError:
                ojk = {}
            if toolk or not ojk.get('verification-results'):
                raise Undecided('unit %s variant %d: Verus did not get to verification: %s' % (unit, k, [d.get('message') for d in toolk][:3]))
            lk, fnk, blkk, labk, _ = analyse_woven(tk)
            for d in vk:
                if 'Resource limit' in d.get('message', '') or 'rlimit' in d.get('message', ''):
                    raise Undecided('unit %s variant %d: solver resource limit: %s' % (unit, k, d['message']))
                oid, kind, where, f = map_error(d, lk, fnk, blkk, labk, fk)
                if not any(e['obligation'] == oid and e['where'] == where for e in errors):
                    errors.append(dict(obligation=oid, kind=kind, where=where + ' [case variant %d]' % k, fn=f, rendered=d.get('rendered', ''), message=d['message'], rlimit=False))
            for mt in ojk.get('times-ms', {}).get('smt', {}).get('smt-run-module-times', []):
                for fb in mt.get('function-breakdown', []):
                    for key, fi in info.items():
                        if fb['function'].endswith('::%s::%s' % (fi.get('implname'), fi.get('src_name'))) and fb.get('mode:') == 'exec' and key in fres:
                            fres[key]['success'] = bool(fres[key]['success']) and bool(fb.get('success'))
                            fres[key]['time_ms'] = (fres[key]['time_ms'] or 0) + (fb.get('time') or 0)
            wall = max(wall, wallk)
    res = dict(unit=unit, path=path, info=info, obligations=obligations, errors=errors, fres=fres, trusted=trusted, variants=n_var,
               allow=allow, verus=oj.get('verification-results'), times=oj.get('times-ms', {}), cmd=' '.join(cmd), wall=wall,
               weave_wall=time.time() - t0 - wall, cached=was_cached, degraded=dict(force), partial=partial, version=oj.get('verus', {}), text=text, spec=u)
    return res


def run_canary(res, tier):
    """second pass: assert(false) at the entry of every function under contract must FAIL."""
    text = res['text']
    names = [n for n, i in res['info'].items() if not i['extern'] and not i.get('degraded')]
    ctext = re.sub(r'/\*@ENTRY:(\w+)\*/', lambda m: 'assert(false); /*@CANARY:%s*/' % m.group(1), text)
    unit = res['unit']
    fname = '%s_canary.rs' % unit
    path = os.path.join(BUILD, unit, fname)
    write_atomic(path, ctext)
    ccmd = verus_cmd(path, tier)
    # only the assertion at each function entry matters here; loops are separate queries that would be re-proved
    # at full cost, so give the canary pass a tiny resource limit (loop queries then stop early; their errors are ignored)
    ccmd[ccmd.index('--rlimit') + 1] = '3'
    rc, out, err, wall, was_cached = cached_verus(ccmd, path, os.path.join(BUILD, unit))
    diags, other = parse_diagnostics(err)
    verif_errs, tool_errs = classify(diags)
    clines = ctext.split('\n')
    hit = set()
    for d in verif_errs:
        if not d['message'].startswith('assertion failed'):
            continue
        for s in d.get('spans', []):
            if os.path.basename(s['file_name']) == fname:
                m = re.search(r'/\*@CANARY:(\w+)\*/', clines[s['line_start'] - 1])
                if m:
                    hit.add(m.group(1))
    missing = [n for n in names if n not in hit]
    if missing and tool_errs and not verif_errs:
        raise Undecided('canary pass of unit %s did not compile: %s' % (unit, [d.get('message') for d in tool_errs][:3]))
    return dict(checked=len(names), failed_as_expected=len(names) - len(missing), vacuous=missing, wall=wall)


# ---------------------------------------------------------------------------
# known findings


def load_known():
    known, fixed = [], []
    p = os.path.join(VERIF, 'known_findings.txt')
    if os.path.exists(p):
        for l in open(p):
            l = l.strip()
            if l.startswith('known:'):
                m = re.match(r'known:\s*property=(\S+)\s+obligation=(\S+)\s+(?:replay=(\S+)\s+)?::\s*(.*)$', l)
                if m:
                    known.append(dict(property=m.group(1), obligation=m.group(2), replay=m.group(3), what=m.group(4)))
            elif l.startswith('fixed:'):
                fixed.append(l)
    return known, fixed


def props_of(ob, info):
    f = info.get(ob['fn'])
    fprops = f['props'] if f else []
    if ob['props_override']:
        # the representation invariant is what carries each operation's own property to later calls
        # (no hidden cells, cursor inside, ...): its clause counts for the function's properties too
        # ... `//#label: +Pxx Pyy` adds tags to the function's properties instead of substituting them
        if ob['label'] == 'wf' or '+' in ob['props_override']:
            return [q for q in dict.fromkeys(ob['props_override'] + fprops) if q != '+']
        return ob['props_override']
    return fprops
