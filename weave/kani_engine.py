"""Kani side (engine K1): loop-free, full-domain harnesses on the real crate (kani/src/lib.rs)."""
import glob
import hashlib
import json
import os
import re
import subprocess
import time

import driver as D

KDIR = os.path.join(D.VERIF, 'kani')

HARNESSES = {
    'csi_dispatch_routes_every_final': dict(
        props=['C03', 'C05', 'C06', 'C07', 'C08', 'C12', 'C13', 'C18', 'C01'],
        what='csi_dispatch: every final byte 0x20..0x7e x params of length 0..4 (any u32; list length is the stated bound) x private flag is routed to the documented listener method with the documented parameter positions (first=row, second=column); unknown finals call nothing; no panic'),
    'escape_dispatch_routes_every_final': dict(
        props=['C03', 'C15', 'C14', 'C06', 'C18', 'C01'],
        what='escape_dispatch: ESC c/D/E/M/H/7/8 -> reset/index/linefeed/reverse_index/set_tab_stop/save_cursor/restore_cursor; every other final byte calls nothing; no panic'),
    'basic_dispatch_routes_every_c0': dict(
        props=['C03', 'C05', 'C06', 'C18', 'C20', 'C01'],
        what='basic_dispatch: BEL/BS/HT/LF/VT/FF/CR/SO/SI -> bell/backspace/tab/linefeed x3/cariage_return/shift_out/shift_in; every other 7-bit code calls nothing; no panic'),
    'charset_tables_match_reference': dict(
        props=['C20'],
        what='LAT1_MAP[i]==i, VT100_MAP[i]==reference, IBMPC_MAP[i]==reference for a symbolic index i in 0..=255 (768 entries; references generated independently, kani/src/ref_tables.rs)'),
    'control_tables': dict(
        props=['C03', 'C19', 'C20', 'C01'],
        what='src/control.rs: BASIC, ALLOWED_IN_CSI, OSC_TERMINATORS (= BEL, ESC \\, U+009C) and the one-character constants ESC/CSI/OSC/DECALN/SI/SO/SP/GREATER/CAN/SUB have the values the recogniser proof assumes'),
    'mode_constants': dict(
        props=['C12'],
        what='LNM=20, IRM=4, DECTCEM=25<<5, DECSCNM=5<<5, DECOM=6<<5, DECAWM=7<<5, DECCOLM=3<<5'),
}


# source files of /repo each harness can depend on (everything it calls, transitively, lives in these files);
# src/lib.rs declares the modules and the ascii! macro
DEPS = {
    'csi_dispatch_routes_every_final': ['parser_listener.rs', 'control.rs', 'lib.rs'],
    'escape_dispatch_routes_every_final': ['parser_listener.rs', 'control.rs', 'lib.rs'],
    'basic_dispatch_routes_every_c0': ['parser_listener.rs', 'control.rs', 'lib.rs'],
    'charset_tables_match_reference': ['charset.rs', 'lib.rs'],
    'control_tables': ['control.rs', 'lib.rs'],
    'mode_constants': ['modes.rs', 'lib.rs'],
}


def tree_hash(name=None):
    h = hashlib.sha256()
    files = sorted(glob.glob(os.path.join(D.REPO, 'src', '*.rs')))
    if name in DEPS:
        files = [os.path.join(D.REPO, 'src', f) for f in DEPS[name]]
    for p in files + [os.path.join(D.REPO, 'Cargo.toml')] + sorted(glob.glob(os.path.join(KDIR, 'src', '*.rs'))):
        h.update(os.path.basename(p).encode())   # content-addressed: a private copy with the same text is the same input
        h.update(open(p, 'rb').read())
    return h.hexdigest()


def run_harness(name, extra=()):
    cmd = ['cargo', 'kani', '--harness', name] + list(extra)
    t0 = time.time()
    p = subprocess.run(cmd, cwd=KDIR, stdout=subprocess.PIPE, stderr=subprocess.STDOUT, text=True, timeout=3600,
                       env=dict(os.environ, CARGO_NET_OFFLINE='true'))
    return p.returncode, p.stdout, time.time() - t0, ' '.join(cmd)


def playback_values(out):
    """concrete values from `--concrete-playback=print` output: list of byte lists in declaration order"""
    vals = []
    for m in re.finditer(r'vec!\[((?:\s*\d+\s*,?)*)\]', out):
        nums = [int(x) for x in re.findall(r'\d+', m.group(1))]
        vals.append(nums)
    return vals


def witness_for(name, out):
    """turn Kani's counterexample into a replay script for the real crate (dispatch probes)"""
    rc, pout, wall, cmd = run_harness(name, ['-Z', 'concrete-playback', '--concrete-playback=print'])
    vals = playback_values(pout)
    # the outer vec![ ... ] also matches; keep the innermost byte vectors only
    vals = [v for v in vals if 1 <= len(v) <= 8]
    def le(v):
        return sum(b << (8 * i) for i, b in enumerate(v))
    try:
        if name.startswith('csi_dispatch'):
            fin, ps, ln, priv = vals[0][0], [le(v) for v in vals[1:5]], le(vals[5]), bool(vals[6][0])
            params = ps[:ln]
            return dict(steps=[dict(dispatch='csi', final=chr(fin), params=params, private=priv)],
                        description='Kani counterexample for %s: final byte %r params %s private=%s' % (name, chr(fin), params, priv),
                        kani_values=vals)
        if name.startswith('escape_dispatch') or name.startswith('basic_dispatch'):
            fin = vals[0][0]
            kind = 'escape' if name.startswith('escape') else 'basic'
            return dict(steps=[dict(dispatch=kind, final=chr(fin), params=[], private=False)],
                        description='Kani counterexample for %s: byte 0x%02x' % (name, fin), kani_values=vals)
    except (IndexError, ValueError):
        pass
    return None


def run_for(prop, tier):
    res = []
    cdir = D.CACHE
    os.makedirs(cdir, exist_ok=True)
    for name, h in HARNESSES.items():
        if prop not in h['props']:
            continue
        th = tree_hash(name)
        cp = os.path.join(cdir, 'kani_%s_%s.json' % (name, th[:32]))
        if os.path.exists(cp) and not os.environ.get('VERIF_NO_CACHE'):
            d = json.load(open(cp))
        else:
            rc, out, wall, cmd = run_harness(name)
            ok = rc == 0 and 'VERIFICATION:- SUCCESSFUL' in out
            failed = 'VERIFICATION:- FAILED' in out
            if not ok and not failed:
                raise D.Undecided('Kani harness %s did not run to a verdict:\n%s' % (name, out[-2000:]))
            checks = re.search(r'\*\* (\d+) of (\d+) failed', out)
            d = dict(ok=ok, output=out[-6000:], wall=wall, cmd='(cd kani && CARGO_NET_OFFLINE=true %s)' % cmd,
                     checks=int(checks.group(2)) if checks else 0, checks_failed=int(checks.group(1)) if checks else -1)
            if failed:
                d['witness'] = witness_for(name, out)
            json.dump(d, open(cp, 'w'))
        res.append(dict(id='kani/%s' % name, ok=d['ok'], what=h['what'] + ' [%d CBMC checks]' % d.get('checks', 0), wall=d['wall'], cmd=d['cmd'],
                        output=d['output'], witness=d.get('witness')))
    return res
