"""Weaver: builds a single-file Verus input from
   (a) items extracted verbatim, by name, from /repo's current working tree,
   (b) contract text from /verif/contracts/*.spec woven in at structural anchors,
   (c) registered shim rewrites (contracts/shims.py),
and can strip everything it added again (round-trip check).

Markers in the woven text
   //@W< fn=<f> sec=<section>      start of a woven block (own line)
   //@W>                           end of a woven block
   /*@w<*/ ... /*@w>*/             inline woven text (closure annotations, for-iter names, braces)
   /*@S<name:b64(original)*/ ... /*@S>*/   shim replacement; original kept base64 in the marker
   //#label[: Pxx Pyy]             obligation label, attached to the clause on the same line
"""
import base64
import os
import re
import sys

from rsscan import Source, ScanError, mask, find_loops, find_closures, match_close, first_at_depth0, top_statements


class WeaveError(Exception):
    pass


# ---------------------------------------------------------------------------
# spec file parsing


class FnSpec:
    def __init__(self, name, opts):
        self.src_name = name               # the function's name in the source
        self.name = opts.get('id', name)   # key used in markers / obligation ids (unique within a unit)
        self.opts = opts
        self.props = [p for p in opts.get('props', '').split(',') if p]
        self.impl = opts.get('impl', 'Screen')
        self.extern = opts.get('extern', '') == '1'
        self.sections = []  # list of (kind, arg, opts, text)
        self.shims = []

    def _replace_sections(self, sections, like):
        self.name, self.props, self.impl, self.extern = like.name, like.props, like.impl, like.extern
        self.shims, self.src_name = like.shims, like.src_name
        self.sections = sections
        return self


class UnitSpec:
    def __init__(self):
        self.name = None
        self.items = []  # (kind, file, name)
        self.preludes = []
        self.fns = []
        self.raw_after = []  # verus text appended after the impl (lemmas using extracted items)
        self.impl_of = {}
        self.wrap = {}
        self.rlimit = None


def parse_kv(tokens):
    opts = {}
    rest = []
    for t in tokens:
        if '=' in t and not t.startswith('"'):
            k, v = t.split('=', 1)
            opts[k] = v
        else:
            rest.append(t)
    return opts, rest


def parse_spec(path, follow_imports=True):
    u = UnitSpec()
    cur_fn = None
    cur_sec = None
    buf = []

    def flush():
        nonlocal buf, cur_sec
        if cur_sec is not None:
            kind, arg, opts = cur_sec
            text = '\n'.join(buf).rstrip() + '\n'
            if kind == 'raw':
                u.raw_after.append(text)
            else:
                cur_fn.sections.append((kind, arg, opts, text))
        buf = []
        cur_sec = None

    for ln, line in enumerate(open(path, encoding='utf-8'), 1):
        s = line.rstrip('\n')
        if s.startswith('@@'):  # comment line in the spec file
            continue
        if s.startswith('@'):
            toks = s[1:].split()
            head = toks[0]
            if head == 'unit':
                u.name = toks[1]
            elif head == 'only':
                pass  # read by engines.units_for: this unit serves only the listed properties
            elif head == 'rlimit':
                u.rlimit = toks[1]
            elif head == 'prelude':
                u.preludes.append(toks[1])
            elif head == 'structpub':
                for nm in toks[2:]:
                    u.items.append(('structpub', toks[1], nm))
            elif head in ('struct', 'enum', 'const'):
                # @struct src/screen.rs CharOpts Cursor ...
                for nm in toks[2:]:
                    u.items.append((head, toks[1], nm))
            elif head == 'import':
                # @import other.spec fnA fnB ... : the functions' contracts (their @sig) are taken from another unit's spec
                # and ASSUMED here (emitted as external_body); they are proved in that other unit.
                flush()
                cur_fn = None
                if not follow_imports:   # units may import from each other (screen <-> sgr): one level only
                    continue
                other = parse_spec(os.path.join(os.path.dirname(path), toks[1]), follow_imports=False)
                for nm in toks[2:]:
                    cand = [f for f in other.fns if f.name == nm]
                    if not cand:
                        raise WeaveError('%s:%d: @import: %s not found in %s' % (path, ln, nm, toks[1]))
                    f = cand[0]
                    g = FnSpec(f.src_name, dict(f.opts, extern='1', imported=toks[1]))
                    g.sections = [sec for sec in f.sections if sec[0] == 'sig']
                    u.fns.append(g)
                cur_fn = None
            elif head == 'fn':
                flush()
                opts, rest = parse_kv(toks[1:])
                cur_fn = FnSpec(rest[0], opts)
                u.fns.append(cur_fn)
            elif head == 'raw':
                flush()
                cur_sec = ('raw', None, {})
            elif head in ('sig', 'entry', 'end'):
                flush()
                cur_sec = (head, None, {})
            elif head == 'cases':
                # @cases loopstart K : one boolean expression per line; the unit is verified once per case with that case
                # assumed at the anchor, and every variant first asserts that the cases are exhaustive
                flush()
                cur_sec = ('cases_' + toks[1], int(toks[2]), {})
            elif head in ('loop', 'closure', 'loopstart', 'loopend'):
                flush()
                opts, rest = parse_kv(toks[1:])
                cur_sec = (head, int(rest[0]), opts)
            elif head in ('before', 'after'):
                flush()
                if toks[1] == 'loop' and len(toks) >= 5 and toks[3] == 'stmt':
                    cur_sec = (head + '_loopstmt', (int(toks[2]), int(toks[4])), {})
                elif toks[1] == 'loop':
                    cur_sec = (head + '_loop', int(toks[2]), {})
                elif toks[1] == 'top':
                    cur_sec = (head + '_top', int(toks[2]), {})
                else:
                    # @after "literal statement text"
                    lit = s[1:].split(None, 1)[1].strip()
                    if not (lit.startswith('"') and lit.endswith('"')):
                        raise WeaveError('%s:%d: bad anchor' % (path, ln))
                    cur_sec = (head + '_stmt', lit[1:-1], {})
            elif head == 'shim':
                flush()
                cur_fn.shims.append(toks[1])
            else:
                raise WeaveError('%s:%d: unknown directive @%s' % (path, ln, head))
        else:
            if cur_sec is not None:
                buf.append(s)
            elif s.strip():
                raise WeaveError('%s:%d: text outside a section' % (path, ln))
    flush()
    return u


# ---------------------------------------------------------------------------
# weaving one function

GHOST_OK = re.compile(r'^\s*(proof\s*\{|let ghost\b|assert\b|assert forall\b|broadcast use\b|reveal\b|//|$|\}|[A-Za-z_][A-Za-z0-9_:]*\(.*\);\s*$)')


def lint_ghost_block(fn, sec, text):
    """Statement-level woven blocks may only contain ghost code. Verus's mode
    checker is the real guarantee (ghost code cannot write exec state); this lint
    rejects the obvious way to smuggle in exec code: a plain `let`/assignment at
    block top level."""
    depth = 0
    for line in text.split('\n'):
        stripped = line.strip()
        if depth == 0 and stripped:
            if not re.match(r'^(proof\s*\{|let ghost\b|assert\b|//)', stripped):
                raise WeaveError('%s/%s: non-ghost statement woven at top level: %r' % (fn, sec, stripped))
        m = mask(line)
        depth += m.count('{') + m.count('(') + m.count('[') - m.count('}') - m.count(')') - m.count(']')
    if depth != 0:
        raise WeaveError('%s/%s: unbalanced woven block' % (fn, sec))


def block(fn, sec, text):
    return '\n//@W< fn=%s sec=%s\n%s//@W>\n' % (fn, sec, text if text.endswith('\n') else text + '\n')


def inline(text):
    return '/*@w<*/' + text + '/*@w>*/'


def shim_wrap(name, original, replacement):
    return '/*@S<%s:%s*/%s/*@S>*/' % (name, base64.b64encode(original.encode()).decode(), replacement)


def _stmt_token(ms: str) -> str:
    """rename-insensitive token of one statement: its kind plus the `self.` members and method names it mentions"""
    t = ms.lstrip()
    mm = re.match(r"(?:'[a-z_]+\s*:\s*)?(let|if|for|while|loop|match|return|continue|break)\b", t)
    kind = mm.group(1) if mm else ('set' if re.match(r'[a-z_0-9.]+\s*(=|\+=|-=)[^=]', t) else 'expr')
    names = set(re.findall(r'\bself\s*\.\s*([a-z_0-9]+)', t)) | set(re.findall(r'\.\s*([a-z_0-9]+)\s*\(', t)) | set(re.findall(r'\b([A-Z][A-Z0-9_]{2,})\b', t))
    return kind + '|' + ','.join(sorted(names))


def fn_shape(text: str, sig_brace: int):
    """A rename-insensitive fingerprint of a function body's statement structure: a token per top-level statement and,
    per loop in pre-order, its keyword and a token per top-level statement of its body; plus the number of closures.
    Contracts are woven at ordinal anchors (`@after top j`, `@loop k`, `@after loop k stmt j`); when the structure differs
    from the one the contract was written for, anchors are re-mapped by aligning the two token sequences."""
    m = mask(text)

    def bound(ms):
        # the single identifier a `let` statement or a `for` header binds ('' for patterns / other statements)
        mm = re.match(r"\s*(?:'[a-z_]+\s*:\s*)?(?:let\s+(?:mut\s+)?|for\s+)([a-z_][a-z0-9_]*)\s*(?::|=|\bin\b)", ms)
        return mm.group(1) if mm else ''
    tspans = top_statements(m, sig_brace)
    tops = [_stmt_token(m[a:b]) for a, b in tspans]
    loops = []
    for lp in find_loops(m[sig_brace:]):
        ob = lp['open'] + sig_brace
        try:
            sp = top_statements(m, ob)
            st = [_stmt_token(m[a:b]) for a, b in sp]
            sn = [bound(m[a:b]) for a, b in sp]
        except Exception:   # noqa: BLE001
            st, sn = ['?'], ['']
        hdr = m[lp['kw_pos'] + sig_brace:ob]
        loops.append(dict(kw=lp['kw'], hdr=_stmt_token(hdr), stmts=st, var=bound(hdr), names=sn))
    body = m[sig_brace:]
    all_names = [mm.group(1) or mm.group(2) or mm.group(3) for mm in re.finditer(
        r"\blet\s+(?:mut\s+)?([a-z_][a-z0-9_]*)\s*(?::|=[^=])|\bfor\s+&?(?:mut\s+)?([a-z_][a-z0-9_]*)\s+in\b|[(,=]\s*(?:move\s+)?\|(?:mut\s+)?([a-z_][a-z0-9_]*)\s*(?::[^|]*)?\|", body)]
    return dict(tops=tops, loops=loops, closures=len(find_closures(m[sig_brace:])), top_names=[bound(m[a:b]) for a, b in tspans],
                all_names=all_names)


def _structure(sh):
    return ([t.split('|')[0] for t in sh['tops']], [(l['kw'], [t.split('|')[0] for t in l['stmts']]) for l in sh['loops']], sh['closures'])


def _align(old, new, old_names=None, new_names=None):
    """old index -> new index (0-based) for two token lists (`kind|names`): a global alignment that only ever pairs statements
    of the same kind, prefers equal tokens, then statements sharing most of the names they mention (statements binding the
    same identifier attract each other, statements binding different identifiers repel unless their tokens are equal);
    finally a statement that was moved (an unmatched old token with exactly one counterpart) is paired with its new position."""
    if old_names is not None and new_names is not None:
        old = ['%s|%s' % (t, ('=' + n) if n else '') for t, n in zip(old, old_names)]
        new = ['%s|%s' % (t, ('=' + n) if n else '') for t, n in zip(new, new_names)]

    def score(a, b):
        ba = bb = ''
        if old_names is not None and new_names is not None:
            a, _, ba = a.rpartition('|')
            b, _, bb = b.rpartition('|')
        sc = score0(a, b)
        if sc is None:
            return None
        if ba and bb:
            sc = sc + 3 if ba == bb else (sc if sc >= 4 else sc - 2)
        return sc

    def score0(a, b):
        ka, _, na = a.partition('|')
        kb, _, nb = b.partition('|')
        if ka != kb:
            return None
        if a == b:
            return 4
        sa, sb = set(filter(None, na.split(','))), set(filter(None, nb.split(',')))
        if not sa and not sb:
            return 2
        j = len(sa & sb) / float(len(sa | sb))
        return 3 if j >= 0.5 else (1 if j > 0 else 0.5)
    n, m_ = len(old), len(new)
    best = [[0.0] * (m_ + 1) for _ in range(n + 1)]
    back = [[None] * (m_ + 1) for _ in range(n + 1)]
    for i in range(1, n + 1):
        for j in range(1, m_ + 1):
            cands = [(best[i - 1][j], 'u'), (best[i][j - 1], 'l')]
            sc = score(old[i - 1], new[j - 1])
            if sc is not None:
                cands.append((best[i - 1][j - 1] + sc, 'd'))
            best[i][j], back[i][j] = max(cands, key=lambda c: c[0])
    mp = {}
    i, j = n, m_
    while i > 0 and j > 0:
        b = back[i][j]
        if b == 'd':
            mp[i - 1] = j - 1
            i, j = i - 1, j - 1
        elif b == 'u':
            i -= 1
        else:
            j -= 1
    # a statement replaced in place by one of another kind (`f();` wrapped into `if c { f(); }`): between two neighbouring
    # pairs (or at either end) with equally many unmatched statements on both sides, pair them by position
    pairs = sorted(mp.items())
    bounds = [(-1, -1)] + pairs + [(n, m_)]
    for (i1, j1), (i2, j2) in zip(bounds, bounds[1:]):
        if i2 - i1 == j2 - j1 and i2 - i1 > 1:
            for k in range(1, i2 - i1):
                if (i1 + k) not in mp and (j1 + k) not in mp.values():
                    mp[i1 + k] = j1 + k
    free_new = [j for j in range(m_) if j not in mp.values()]
    for want in (4, 3):   # moved statements: identical token first, then same kind sharing most names
        for i, t in enumerate(old):
            if i in mp:
                continue
            cand = [j for j in free_new if score(t, new[j]) is not None and score(t, new[j]) >= want]
            rivals = [i2 for i2 in range(n) if i2 not in mp and i2 != i and any(score(old[i2], new[j]) is not None and score(old[i2], new[j]) >= want for j in cand)]
            if len(cand) == 1 and not rivals:
                mp[i] = cand[0]
                free_new.remove(cand[0])
    return mp


def weave_fn(fs: FnSpec, text: str, sig_brace: int, shim_table, variant=0, baseline=None):
    """text: the function's verbatim source text; sig_brace: index of the body '{'.
    Returns woven text."""
    m = mask(text)
    edits = []  # (pos, order, insert_text)  or replacement (a, b, text)
    repl = []
    loops = find_loops(m[sig_brace:])
    for lp in loops:
        for k in ('kw_pos', 'open', 'close'):
            lp[k] += sig_brace
        if lp['in_pos'] is not None:
            lp['in_pos'] += sig_brace
    closures = find_closures(m[sig_brace:])
    for c in closures:
        for k in ('bar0', 'bar1', 'body_start', 'body_end'):
            c[k] += sig_brace
    body_close = match_close(m, sig_brace)
    name = fs.name

    # ordinal anchors are written for the baseline structure (contracts/shapes.json); on a different structure they are
    # re-mapped by aligning statement tokens, and an anchor whose statement has no counterpart is a lost anchor
    cur_shape = fn_shape(text, sig_brace) if baseline else None
    top_map = loop_map = None
    if baseline and _structure(cur_shape) != _structure(baseline):
        top_map = _align(baseline['tops'], cur_shape['tops'], baseline.get('top_names'), cur_shape.get('top_names'))
        loop_map = _align([l['kw'] + '/' + l['hdr'] for l in baseline['loops']], [l['kw'] + '/' + l['hdr'] for l in cur_shape['loops']])
        if len(loop_map) < len(baseline['loops']) and len(baseline['loops']) == len(cur_shape['loops']):
            loop_map = {k: k for k in range(len(baseline['loops']))}   # same number of loops: keep their order

    # locals renamed in the source: a `let`/`for` of the baseline structure whose counterpart binds another name.  The woven
    # contract text names code locals (invariants about `line`, `x`, ...), so the same renaming is applied to it.
    renames = {}
    if baseline and baseline.get('top_names') is not None and cur_shape is None:
        cur_shape = fn_shape(text, sig_brace)
    if baseline and baseline.get('top_names') is not None:
        def similar(ta, tb):
            if ta == tb:
                return True
            ka, _, na = ta.partition('|')
            kb, _, nb = tb.partition('|')
            sa, sb = set(filter(None, na.split(','))), set(filter(None, nb.split(',')))
            return ka == kb and (not (sa | sb) or len(sa & sb) / float(len(sa | sb)) >= 0.5)

        def pair(o, n_, ta='', tb=''):
            if o and n_ and o != n_ and similar(ta, tb):
                renames.setdefault(o, set()).add(n_)
        tm = top_map if top_map is not None else {k: k for k in range(min(len(baseline['tops']), len(cur_shape['tops'])))}
        for i_, j_ in tm.items():
            if i_ < len(baseline['top_names']) and j_ < len(cur_shape['top_names']):
                pair(baseline['top_names'][i_], cur_shape['top_names'][j_], baseline['tops'][i_], cur_shape['tops'][j_])
        lm = loop_map if loop_map is not None else {k: k for k in range(min(len(baseline['loops']), len(cur_shape['loops'])))}
        for i_, j_ in lm.items():
            bl, cl = baseline['loops'][i_], cur_shape['loops'][j_]
            pair(bl.get('var', ''), cl.get('var', ''), bl['hdr'].replace(bl.get('var', '') or '\0', ''), cl['hdr'].replace(cl.get('var', '') or '\0', ''))
            sm = {k: k for k in range(min(len(bl['stmts']), len(cl['stmts'])))} if bl['stmts'] == cl['stmts'] or len(bl['stmts']) == len(cl['stmts']) else _align(bl['stmts'], cl['stmts'], bl.get('names'), cl.get('names'))
            for a_, b_ in sm.items():
                if a_ < len(bl.get('names', [])) and b_ < len(cl.get('names', [])):
                    pair(bl['names'][a_], cl['names'][b_], bl['stmts'][a_], cl['stmts'][b_])
        # every binder of the body in textual order (also those nested in branches and closures): with equally many binders
        # on both sides a differing position is a renamed local
        ba, ca = baseline.get('all_names'), cur_shape.get('all_names')
        if ba is not None and ca is not None and len(ba) == len(ca):
            for o_, n__ in zip(ba, ca):
                # a renaming makes the old name disappear and brings in a name that was not there; a moved binder does neither
                if o_ != n__ and o_ not in ca and n__ not in ba:
                    renames.setdefault(o_, set()).add(n__)
        # only unambiguous renamings, and never onto a name the contract text already uses for something else
        renames = {o: list(ns)[0] for o, ns in renames.items() if len(ns) == 1
                   and o not in ('char', 'str', 'bool', 'u8', 'u16', 'u32', 'u64', 'usize', 'i32', 'i64', 'int', 'nat', 'self', 'old', 'final')}
        # a local that shadows a parameter of the same name (`let count = count.map(..)`): the contract's `count` may be either
        params_ = set(re.findall(r'([a-z_][a-z0-9_]*)\s*:', m[:sig_brace]))
        renames = {o: n_ for o, n_ in renames.items() if o not in params_}
        spec_text = '\n'.join(t or '' for (_k, _a, _o, t) in fs.sections)
        renames = {o: n_ for o, n_ in renames.items() if not re.search(r'\b%s\b' % re.escape(n_), spec_text)}
    if renames:
        rx = re.compile(r'(?<![.\w])(%s)\b' % '|'.join(re.escape(o) for o in renames))   # never a field / method name
        fs = FnSpec(fs.src_name, dict(fs.opts))._replace_sections([(k, a_, o_, (rx.sub(lambda mm: renames[mm.group(1)], t) if isinstance(t, str) else t)) for (k, a_, o_, t) in fs.sections], fs)

    def need_loop(k):
        k0 = k
        if loop_map is not None:
            if (k - 1) not in loop_map:
                raise WeaveError('lost anchor: %s: loop %d of the structure the contract was written for has no counterpart' % (name, k))
            k = loop_map[k - 1] + 1
        if k < 1 or k > len(loops):
            raise WeaveError('lost anchor: %s has %d loops, contract refers to loop %d' % (name, len(loops), k0))
        return loops[k - 1]

    def map_top(j):
        if top_map is None:
            return j
        if (j - 1) not in top_map:
            raise WeaveError('lost anchor: %s: top-level statement %d of the structure the contract was written for has no counterpart' % (name, j))
        return top_map[j - 1] + 1

    def map_loopstmt(k, j):
        if loop_map is None:
            return j
        ob, nb = baseline['loops'][k - 1]['stmts'], cur_shape['loops'][loop_map[k - 1]]['stmts']
        if ob == nb:
            return j
        mp = _align(ob, nb, baseline['loops'][k - 1].get('names'), cur_shape['loops'][loop_map[k - 1]].get('names'))
        if (j - 1) not in mp:
            raise WeaveError('lost anchor: %s: statement %d of loop %d has no counterpart' % (name, j, k))
        return mp[j - 1] + 1

    order = 0
    edits.append((sig_brace + 1, -1, '/*@ENTRY:%s*/' % name))
    if 'ret' in fs.opts:
        # name the return value:  `-> T {`  becomes  `-> (r: T) {`
        arrow = m.rfind('->', 0, sig_brace)
        if arrow < 0:
            raise WeaveError('lost anchor: %s has no return type' % name)
        ty = text[arrow + 2:sig_brace]
        repl.append((arrow + 2, sig_brace, shim_wrap('name-return', ty, ' (%s: %s) ' % (fs.opts['ret'], ty.strip()))))
    for kind, arg, opts, stext in fs.sections:
        order += 1
        if kind == 'sig':
            edits.append((sig_brace, order, block(name, 'sig', stext)))
        elif kind == 'entry':
            lint_ghost_block(name, 'entry', stext)
            edits.append((sig_brace + 1, order, block(name, 'entry', stext)))
        elif kind == 'end':
            lint_ghost_block(name, 'end', stext)
            # before a tail expression if there is one, else before the closing brace
            tops = top_statements(m, sig_brace)
            pos_end = body_close
            if tops and not m[tops[-1][1] - 1] in ';}':
                pos_end = tops[-1][0]
            edits.append((pos_end, order, block(name, 'end', stext)))
        elif kind == 'loop' and opts.get('desugar'):
            # desugar-for (DESIGN 3.3): Verus rejects `continue` inside `for`; the Rust reference's own desugaring
            #   for P in E { B }   ==   { let mut it = (E).into_iter(); loop { match it.next() { None => break, Some(P) => { B } } } }
            lp = need_loop(arg)
            if lp['kw'] != 'for':
                raise WeaveError('%s loop %d is not a for loop' % (name, arg))
            hdr = text[lp['kw_pos']:lp['open'] + 1]
            mm = re.match(r'for\s+(\w+)\s+in\s+(.*?)\s*\{$', hdr, re.S)
            if not mm:
                raise WeaveError('lost anchor: %s loop %d header %r cannot be desugared' % (name, arg, hdr))
            pat, expr = mm.group(1), mm.group(2)
            itn = opts['desugar']
            newhdr = '{ let mut %s = (%s).into_iter(); loop' % (itn, expr) + block(name, 'loop%d' % arg, stext) + \
                '{ match %s.next() { None => break, Some(%s) => {' % (itn, pat)
            repl.append((lp['kw_pos'], lp['open'] + 1, shim_wrap('desugar-for', hdr, newhdr)))
            edits.append((lp['close'] + 1, order, inline(' } } }')))
        elif kind == 'loop':
            lp = need_loop(arg)
            if 'iter' in opts:
                if lp['kw'] != 'for':
                    raise WeaveError('%s loop %d is not a for loop' % (name, arg))
                edits.append((lp['in_pos'], order, inline(opts['iter'] + ': ')))
            edits.append((lp['open'], order, block(name, 'loop%d' % arg, stext)))
        elif kind == 'cases_loopstart':
            lp = need_loop(arg)
            cases = [c.strip() for c in stext.split('\n') if c.strip()]
            k = variant % len(cases)
            body = '    proof {\n        assert(%s); //#cases_exhaustive\n        assume(%s); // case %d of %d\n    }\n' % (
                ' || '.join('(%s)' % c for c in cases), cases[k], k + 1, len(cases))
            edits.append((lp['open'] + 1, order, block(name, 'cases%d' % arg, body)))
        elif kind == 'loopstart':
            lp = need_loop(arg)
            lint_ghost_block(name, 'loopstart%d' % arg, stext)
            edits.append((lp['open'] + 1, order, block(name, 'loopstart%d' % arg, stext)))
        elif kind == 'loopend':
            lp = need_loop(arg)
            lint_ghost_block(name, 'loopend%d' % arg, stext)
            edits.append((lp['close'], order, block(name, 'loopend%d' % arg, stext)))
        elif kind == 'before_loop':
            lp = need_loop(arg)
            lint_ghost_block(name, 'before%d' % arg, stext)
            edits.append((lp['kw_pos'], order, block(name, 'before%d' % arg, stext)))
        elif kind == 'after_loop':
            lp = need_loop(arg)
            lint_ghost_block(name, 'after%d' % arg, stext)
            edits.append((lp['close'] + 1, order, block(name, 'after%d' % arg, stext)))
        elif kind in ('after_loopstmt', 'before_loopstmt'):
            lp = need_loop(arg[0])
            stmts = top_statements(m, lp['open'])
            arg = (arg[0], map_loopstmt(arg[0], arg[1]))
            if arg[1] < 1 or arg[1] > len(stmts):
                raise WeaveError('lost anchor: %s loop %d has %d body statements, contract refers to statement %d' % (name, arg[0], len(stmts), arg[1]))
            lint_ghost_block(name, kind, stext)
            a0, b0 = stmts[arg[1] - 1]
            edits.append((b0 if kind == 'after_loopstmt' else a0, order, block(name, '%s%d_%d' % (kind, arg[0], arg[1]), stext)))
        elif kind in ('after_top', 'before_top'):
            tops = top_statements(m, sig_brace)
            arg = map_top(arg)
            if arg < 1 or arg > len(tops):
                raise WeaveError('lost anchor: %s has %d top-level statements, contract refers to statement %d' % (name, len(tops), arg))
            lint_ghost_block(name, kind, stext)
            a0, b0 = tops[arg - 1]
            edits.append((b0 if kind == 'after_top' else a0, order, block(name, '%s%d' % (kind, arg), stext)))
        elif kind in ('after_stmt', 'before_stmt'):
            idx = text.find(arg, sig_brace)
            if idx < 0:
                raise WeaveError('lost anchor: %s: statement %r not found' % (name, arg))
            if text.find(arg, idx + 1) >= 0:
                raise WeaveError('ambiguous anchor: %s: statement %r occurs twice' % (name, arg))
            lint_ghost_block(name, kind, stext)
            if kind == 'after_stmt':
                pos = idx + len(arg)
            else:
                pos = idx
            edits.append((pos, order, block(name, '%s:%s' % (kind, re.sub(r'\s+', '_', arg)[:40]), stext)))
        elif kind == 'closure':
            if arg < 1 or arg > len(closures):
                raise WeaveError('lost anchor: %s has %d closures, contract refers to closure %d' % (name, len(closures), arg))
            c = closures[arg - 1]
            # stext: first line = annotated parameter list `|a: u32| -> (r: u32)`, rest = requires/ensures
            head, _, tail = stext.strip().partition('\n')
            want_args = head[head.index('|') + 1:head.rindex('|')]
            plain = lambda s: re.sub(r'\s+', '', re.sub(r':[^,|]*', '', s))
            if plain(want_args) != plain(c['args']):
                raise WeaveError('lost anchor: %s closure %d has params |%s|, contract expects |%s|' % (name, arg, c['args'], want_args))
            repl.append((c['bar0'], c['bar1'], shim_wrap('closure-sig', text[c['bar0']:c['bar1']], head + '\n' + tail + '\n')))
            if not c['braced']:
                edits.append((c['body_start'], order, inline('{')))
                edits.append((c['body_end'], order, inline('}')))
        else:
            raise WeaveError('unknown section kind ' + kind)

    # shims: expression-level call-outs registered in shims.py.  Patterns are matched on the *masked* text
    # (comments blanked), so a comment inside the construct does not hide it; captured groups are taken
    # from the original text.
    for sname in fs.shims:
        sh = shim_table[sname]
        if renames:
            # a shim pattern that names a code local follows the renaming of that local (names of 3+ characters only, so that
            # regex escapes such as \w are never touched)
            def ren_rx(t):
                # rename identifiers in a regex / template: escapes (\b, \w, \1, \. ...) are set aside first so that the
                # letter of an escape is neither renamed nor taken for the start of an identifier
                esc = []

                def keep(mm):
                    esc.append(mm.group(0))
                    return '\x00%d\x00' % (len(esc) - 1)
                t2 = re.sub(r'\\.', keep, t)
                t2 = re.sub(r'(?<![.\w])(%s)(?!\w)' % '|'.join(re.escape(o) for o in renames), lambda mm: renames[mm.group(1)], t2)
                return re.sub(r'\x00(\d+)\x00', lambda mm: esc[int(mm.group(1))], t2)
            sh = dict(sh, pattern=ren_rx(sh['pattern']), replace=ren_rx(sh['replace']))
        hits = list(re.finditer(sh['pattern'], m[sig_brace:], re.S))
        # a shim is a rewrite rule: where its pattern does not occur there is nothing to rewrite (if the code now uses a
        # construct Verus cannot read, Verus says so and the function is reported UNDECIDED)
        for h in hits:
            a, b = sig_brace + h.start(), sig_brace + h.end()

            def grp(mm, h=h):
                k = int(mm.group(1))
                return text[sig_brace + h.start(k):sig_brace + h.end(k)]
            replacement = re.sub(r'\\(\d)', grp, sh['replace'])
            repl.append((a, b, shim_wrap(sname, text[a:b], replacement)))

    # apply: replacements and insertions must not overlap
    pieces = []
    events = [(p, 0, o, t, None) for (p, o, t) in edits] + [(a, 1, 0, t, b) for (a, b, t) in repl]
    events.sort(key=lambda e: (e[0], e[1], e[2]))
    pos = 0
    for p, typ, o, t, b in events:
        if p < pos:
            raise WeaveError('%s: overlapping edits at %d' % (name, p))
        pieces.append(text[pos:p])
        pieces.append(t)
        pos = p if typ == 0 else b
    pieces.append(text[pos:])
    return ''.join(pieces)


# ---------------------------------------------------------------------------
# stripping (independent of the weaving code path): removes what markers delimit


def strip_woven(w: str) -> str:
    w = re.sub(r'/\*@ENTRY:[A-Za-z0-9_]+\*/', '', w)
    w = re.sub(r'//@FN[<>] [A-Za-z0-9_]+\n', '', w)
    w = re.sub(r'\n//@W<[^\n]*\n.*?//@W>\n', '', w, flags=re.S)
    w = re.sub(r'/\*@w<\*/.*?/\*@w>\*/', '', w, flags=re.S)

    def unshim(mm):
        return base64.b64decode(mm.group(2)).decode()
    w = re.sub(r'/\*@S<([A-Za-z0-9_-]+):([A-Za-z0-9+/=]*)\*/.*?/\*@S>\*/', unshim, w, flags=re.S)
    return w


# ---------------------------------------------------------------------------
# whole unit


def build_unit(spec_path, repo, contracts_dir, shim_table, force_extern=None, variant=0, extra_consts=()):
    u = parse_spec(spec_path)
    # constants a function turned out to need (a named constant introduced in the source): extracted verbatim like @const
    for rel, nm in extra_consts:
        if ('const', rel, nm) not in u.items:
            u.items.append(('const', rel, nm))
    srcs = {}

    def src(rel):
        if rel not in srcs:
            srcs[rel] = Source(os.path.join(repo, rel))
        return srcs[rel]

    shapes = {}
    sp_ = os.path.join(contracts_dir, 'shapes.json')
    if os.path.exists(sp_):
        import json as _json
        shapes = _json.load(open(sp_))
    out_types = []
    out_consts = []
    roundtrip = []  # (file, verbatim text that must occur in file)
    for kind, rel, nm in u.items:
        s = src(rel)
        if kind == 'const':
            a, b = s.const(nm)
            t = s.text[a:b].strip()
            # ascii!(hi / lo) is the crate's macro for the one-character ASCII string with code (hi << 4) + lo
            # (src/lib.rs; it uses unsafe from_utf8_unchecked, which Verus cannot read): evaluate it mechanically
            t2 = re.sub(r'ascii!\((\d+) / (\d+)\)', lambda mm: shim_wrap('ascii-const', mm.group(0), '"\\u{%x}"' % ((int(mm.group(1)) << 4) + int(mm.group(2)))), t)
            # inside verus! a const is also a (spec) function: elided lifetimes in its type must be spelled out
            eqpos = t2.index('=')
            ty = re.sub(r'&(?!\')', '&' + inline("'static "), t2[:eqpos])
            t2 = ty + t2[eqpos:]
            if strip_woven(t2) != t:
                raise WeaveError('round-trip mismatch in const %s' % nm)
            out_consts.append(t2)
            roundtrip.append((rel, t))
        elif kind == 'structpub':
            # Verus cannot import a struct with non-pub fields transparently; visibility has no run-time meaning,
            # so the copy handed to Verus gets `pub` on every field (marked, and undone by strip_woven)
            a, b = s.item('struct', nm)
            t = s.text[a:b]
            t2 = re.sub(r'pub\(crate\) ', lambda mm: shim_wrap('vis-pub', mm.group(0), 'pub '), t)
            t2 = re.sub(r'(?m)^(\s+)(?!pub\b|//|#|/\*@S)([a-z_][a-z0-9_]*\s*:)', lambda mm: mm.group(1) + inline('pub ') + mm.group(2), t2)
            if strip_woven(t2) != t:
                raise WeaveError('round-trip mismatch in struct %s' % nm)
            out_types.append(t2)
            roundtrip.append((rel, t))
        else:
            a, b = s.item(kind, nm)
            out_types.append(s.text[a:b])
            roundtrip.append((rel, s.text[a:b]))

    fn_texts = []
    fn_info = {}
    force_extern = dict(force_extern or {})
    for fs in u.fns:
        rel = fs.opts.get('src', 'src/screen.rs')
        s = src(rel)
        if fs.opts.get('keepimpl'):
            impl_re = r'^impl\b.*\b%s\b' % fs.impl
        elif 'trait' in fs.opts:
            impl_re = r'^impl %s for %s\b' % (fs.opts['trait'], fs.impl)
        elif True:
            impl_re = fs.opts.get('implre', r'^impl (ParserListener for )?%s\b' % fs.impl)
        if fs.opts.get('closurefn'):
            # closure-to-fn (DESIGN 3.3): the body of the shipping (#[cfg(not(test))]) recogniser closure
            #   Gn::<String>::new_scoped(move |mut co| { BODY })
            # becomes  fn NAME(PARAMS) { BODY };  the #[cfg(test)] copy must be textually identical.
            marker = 'new_scoped(move |mut co| {'
            occ = [mm.start() for mm in re.finditer(re.escape(marker), s.text)]
            if len(occ) != 2:
                raise WeaveError('lost anchor: expected 2 copies of the recogniser closure in %s, found %d' % (rel, len(occ)))
            bodies = []
            for o in occ:
                ob = o + len(marker) - 1
                cb = match_close(s.mask, ob)
                bodies.append((ob, cb))
            b0 = s.text[bodies[0][0]:bodies[0][1] + 1]
            b1 = s.text[bodies[1][0]:bodies[1][1] + 1]
            if b0 != b1:
                raise WeaveError('the #[cfg(test)] and #[cfg(not(test))] copies of the recogniser differ: the tests no longer exercise the code that ships')
            pre = s.text[max(0, occ[0] - 400):occ[0]]
            if '#[cfg(not(test))]' not in pre or pre.rfind('#[cfg(not(test))]') < pre.rfind('#[cfg(test)]'):
                raise WeaveError('lost anchor: first recogniser copy is not the #[cfg(not(test))] one')
            params = open(os.path.join(contracts_dir, fs.opts['closurefn'])).read().strip()
            header = shim_wrap('closure-to-fn', '', 'fn %s(%s) ' % (fs.src_name, params))
            hdr = 'impl closure-in Parser::new'
            text = header + b0
            a = bodies[0][0] - len(header)
            brace = bodies[0][0]
            b = bodies[0][1] + 1
        elif fs.opts.get('staticfn'):
            # static-to-fn: the initialiser block of `[pub] static ref NAME: TYPE = { BLOCK };` (inside lazy_static!)
            # becomes  fn NAME_init() -> TYPE { BLOCK }  (the block is verbatim; the header is the only woven text)
            mm = re.search(r'\bstatic\s+ref\s+%s\s*:\s*([^=\n{]+?)\s*=\s*\{' % re.escape(fs.src_name), s.mask)
            if not mm:
                raise WeaveError('lost anchor: static ref %s not found in %s' % (fs.src_name, rel))
            ob = mm.end() - 1
            cb = match_close(s.mask, ob)
            b0 = s.text[ob:cb + 1]
            ty = s.text[mm.start(1):mm.end(1)]
            header = shim_wrap('static-to-fn', '', 'fn %s_init() -> (r: %s) ' % (fs.src_name, ty))
            hdr = 'impl static-initialiser'
            text = header + b0
            a = ob - len(header)
            brace = ob
            b = cb + 1
        else:
            hdr, a, brace, b = s.fn_in_impl(impl_re, fs.src_name)
            text = s.text[a:b]
        blockfn = bool(fs.opts.get('closurefn') or fs.opts.get('staticfn'))
        degraded = None
        woven = None
        shape = None
        shape_changed = False
        want = shapes.get(u.name, {}).get(fs.name)
        if not fs.extern:
            try:
                shape = fn_shape(text, brace - a)
            except Exception as e:   # noqa: BLE001
                shape = None
            # "changed" means the statement *structure* (kinds and counts), not the content of a statement: a contract is
            # expected to notice a changed statement, but it cannot be blamed on a proof step that now sits somewhere else
            shape_changed = bool(want) and shape is not None and _structure(shape) != _structure(want)
        if not fs.extern and fs.name not in force_extern:
            try:
                woven = weave_fn(fs, text, brace - a, shim_table, variant, want if (want and isinstance(want, dict)) else None)
            except WeaveError as e:
                # this function cannot be woven (lost anchor / shim no longer matches): keep the unit alive by
                # assuming its contract; every obligation of the function is then reported as UNDECIDED
                force_extern[fs.name] = 'weave: %s' % e
        if fs.name in force_extern:
            degraded = force_extern[fs.name]
        if fs.extern or degraded:
            sig = text[:brace - a]
            secs = [t for (k, _, _, t) in fs.sections if k == 'sig']
            if 'ret' in fs.opts:
                arrow = sig.rfind('->')
                sig = sig[:arrow + 2] + shim_wrap('name-return', sig[arrow + 2:], ' (%s: %s) ' % (fs.opts['ret'], sig[arrow + 2:].strip()))
            woven = '#[verifier::external_body]\n' + sig + block(fs.name, 'sig', secs[0] if secs else '') + \
                shim_wrap('extern-body', text[brace - a:], '{ unimplemented!() }')
        if strip_woven(woven).replace('#[verifier::external_body]\n', '') != (text if not blockfn else b0):
            open('/tmp/weave_roundtrip_a.txt', 'w').write(strip_woven(woven))
            open('/tmp/weave_roundtrip_b.txt', 'w').write(text)
            raise WeaveError('round-trip mismatch in %s' % fs.name)
        roundtrip.append((rel, text if not blockfn else b0))
        spin = '' if (fs.extern or degraded) else '/*@w<*/#[verifier::spinoff_prover]/*@w>*/\n'
        if fs.opts.get('nodecreases') and not (fs.extern or degraded):
            spin += '/*@w<*/#[verifier::exec_allows_no_decreases_clause]/*@w>*/\n'
        if fs.opts.get('loop_isolation') == 'false' and not (fs.extern or degraded):
            spin += '/*@w<*/#[verifier::loop_isolation(false)]/*@w>*/\n'
        fn_texts.append((fs, '//@FN< %s\n%s%s\n//@FN> %s\n' % (fs.name, spin, woven, fs.name)))
        fn_info[fs.name] = dict(src=rel, line=s.lineno(a), impl=hdr, text=text, props=fs.props, extern=fs.extern,
                                shims=fs.shims, degraded=degraded, src_name=fs.src_name, implname=fs.impl,
                                imported=fs.opts.get('imported'),
                                local=[q for q in fs.opts.get('local', '').split(',') if q], shape=shape, shape_changed=shape_changed,
                                # registered call-outs that matched on the tree the contract was written for and match less often now:
                                # the code they stood for is then read natively, usually with a weaker specification
                                shim_counts={n_: len(re.findall(r'/\*@S<%s:' % re.escape(n_), woven or '')) for n_ in fs.shims},
                                shim_lost=sorted(n_ for n_ in fs.shims if isinstance(want, dict) and
                                                 len(re.findall(r'/\*@S<%s:' % re.escape(n_), woven or '')) < want.get('shims', {}).get(n_, 0)),
                                # every property named in a label tag of this function's contract (a degraded function
                                # has no woven invariants, but its tagged obligations are still undecided, not absent)
                                label_props=sorted(set(q for (_k, _a, _o, t) in fs.sections
                                                       for tag in re.findall(r'//#[A-Za-z0-9_]+:\s*\+?([A-Z0-9 ,]+)', t or '')
                                                       for q in re.split(r'[ ,]+', tag) if q)))

    # the round-trip check against the files themselves
    for rel, t in roundtrip:
        if t not in srcs[rel].text:
            raise WeaveError('round-trip: extracted text is not a substring of %s' % rel)

    parts = []
    parts.append('// GENERATED by /verif/weave/weave.py from %s + %s -- do not edit\n' % (repo, os.path.basename(spec_path)))
    parts.append('#![feature(allocator_api)]\n#![allow(unused_imports, dead_code, unused_variables, unused_mut, unused_parens, non_snake_case, unused_braces, unreachable_code, unused_assignments)]\n')
    parts.append('use std::collections::{HashMap, HashSet};\nuse vstd::prelude::*;\n')
    parts.append('// ---- type definitions extracted verbatim (outside verus!, imported below) ----\n')
    parts.append('\n'.join(out_types) + '\n')
    parts.append('verus! {\n')
    parts.append('// ---- constants extracted verbatim ----\n')
    parts.append('\n'.join(out_consts) + '\n')
    for p in u.preludes:
        parts.append('// ---- prelude %s ----\n' % p)
        parts.append(open(os.path.join(contracts_dir, p), encoding='utf-8').read())
    # group functions per impl type
    by_impl = {}
    for fs, woven in fn_texts:
        hdr = ('%s for %s' % (fs.opts['trait'], fs.impl)) if 'trait' in fs.opts else fs.impl
        if fs.opts.get('keepimpl'):
            hdr = re.sub(r'\s+', ' ', fn_info[fs.name]['impl'])[len('impl'):].strip()
            if hdr.startswith('<'):
                hdr = '\x00' + hdr  # generic parameters follow `impl` directly
        by_impl.setdefault(hdr, []).append(woven)
    for impl, ws in by_impl.items():
        if impl == '-':
            parts.append('\n' + '\n\n'.join(ws) + '\n')
            continue
        if impl.startswith('\x00'):
            parts.append('\nimpl%s {\n' % impl[1:])
        else:
            parts.append('\nimpl %s {\n' % impl)
        parts.append('\n\n'.join(ws))
        parts.append('\n}\n')
    for r in u.raw_after:
        parts.append('\n//@W< fn=__lemmas sec=raw\n' + r + '//@W>\n')
    parts.append('\n} // verus!\nfn main() {}\n')
    u.n_variants = 1
    for fs in u.fns:
        for (kind, arg, opts, stext) in fs.sections:
            if kind.startswith('cases_'):
                u.n_variants = max(u.n_variants, len([c for c in stext.split('\n') if c.strip()]))
    return u, ''.join(parts), fn_info


if __name__ == '__main__':
    sys.path.insert(0, os.path.join(os.path.dirname(__file__), '..', 'contracts'))
    import shims
    spec, repo, out = sys.argv[1], sys.argv[2], sys.argv[3]
    try:
        u, text, info = build_unit(spec, repo, os.path.join(os.path.dirname(__file__), '..', 'contracts'), shims.SHIMS)
    except (WeaveError, ScanError) as e:
        print('WEAVE-ERROR:', e)
        sys.exit(2)
    open(out, 'w').write(text)
    print('woven %d functions -> %s' % (len(info), out))
    for k, v in info.items():
        if v.get('degraded'):
            print('DEGRADED (contract assumed, not verified): %s: %s' % (k, v['degraded']))
