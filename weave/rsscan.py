"""Minimal Rust source scanner: masks comments/strings so that brace matching and
regex search are safe, and extracts items (structs, enums, consts, fns inside impl
blocks) *by name* from the real source text.  Stdlib only.

Nothing here interprets Rust; it only finds spans.  Every span it returns is a
verbatim substring of the input (callers re-check that)."""
import re


class ScanError(Exception):
    pass


def mask(src: str) -> str:
    """Return a string of the same length in which the *contents* of comments,
    string literals and char literals are replaced by spaces (newlines kept).
    Delimiters of strings are kept as '"' so that tokens do not merge."""
    out = list(src)
    i, n = 0, len(src)

    def blank(a, b):
        for k in range(a, b):
            if out[k] != '\n':
                out[k] = ' '

    while i < n:
        c = src[i]
        if c == '/' and i + 1 < n and src[i + 1] == '/':
            j = src.find('\n', i)
            j = n if j < 0 else j
            blank(i, j)
            i = j
        elif c == '/' and i + 1 < n and src[i + 1] == '*':
            depth, j = 1, i + 2
            while j < n and depth > 0:
                if src.startswith('/*', j):
                    depth += 1
                    j += 2
                elif src.startswith('*/', j):
                    depth -= 1
                    j += 2
                else:
                    j += 1
            blank(i, j)
            i = j
        elif c == '"' or (c == 'r' and re.match(r'r#*"', src[i:i + 8]) and (i == 0 or not (src[i - 1].isalnum() or src[i - 1] == '_'))) \
                or (c == 'b' and i + 1 < n and src[i + 1] == '"' and (i == 0 or not (src[i - 1].isalnum() or src[i - 1] == '_'))):
            if c == 'b':
                i += 1
                c = '"'
            if c == 'r':
                m = re.match(r'r(#*)"', src[i:])
                hashes = m.group(1)
                start = i + len(m.group(0))
                end = src.find('"' + hashes, start)
                if end < 0:
                    raise ScanError('unterminated raw string')
                blank(i, end + 1 + len(hashes))
                out[i] = '"'
                out[end + len(hashes)] = '"'
                i = end + 1 + len(hashes)
            else:
                j = i + 1
                while j < n and src[j] != '"':
                    if src[j] == '\\':
                        j += 1
                    j += 1
                blank(i + 1, j)
                i = j + 1
        elif c == "'":
            # char literal or lifetime
            m = re.match(r"'(\\u\{[0-9a-fA-F_]+\}|\\x[0-9a-fA-F]{2}|\\.|[^\\'])'", src[i:])
            if m:
                blank(i + 1, i + len(m.group(0)) - 1)
                i += len(m.group(0))
            else:
                i += 1
        else:
            i += 1
    return ''.join(out)


OPEN = {'{': '}', '(': ')', '[': ']'}
CLOSE = {v: k for k, v in OPEN.items()}


def match_close(m: str, pos: int) -> int:
    """m[pos] is an opening bracket; return index of its matching closer."""
    stack = []
    i = pos
    while i < len(m):
        ch = m[i]
        if ch in OPEN:
            stack.append(ch)
        elif ch in CLOSE:
            if not stack or stack[-1] != CLOSE[ch]:
                raise ScanError('unbalanced bracket at %d' % i)
            stack.pop()
            if not stack:
                return i
        i += 1
    raise ScanError('no closing bracket for %d' % pos)


def first_at_depth0(m: str, start: int, chars: str, end=None) -> int:
    """index of the first char in `chars` at ()/[]/{} depth 0 from start; -1 if none."""
    depth = 0
    i = start
    end = len(m) if end is None else end
    while i < end:
        ch = m[i]
        if depth == 0 and ch in chars:
            return i
        if ch in OPEN:
            depth += 1
        elif ch in CLOSE:
            if depth == 0:
                return -1
            depth -= 1
        i += 1
    return -1


def line_start(src, pos):
    return src.rfind('\n', 0, pos) + 1


def attrs_start(src, m, pos):
    """Extend an item start upwards over preceding #[...] attribute lines."""
    start = line_start(src, pos)
    while True:
        prev_end = start - 1
        if prev_end <= 0:
            break
        prev_start = line_start(src, prev_end)
        line = m[prev_start:prev_end].strip()
        if line.startswith('#[') and line.endswith(']'):
            start = prev_start
        else:
            break
    return start


class Source:
    def __init__(self, path):
        self.path = path
        self.text = open(path, encoding='utf-8').read()
        self.mask = mask(self.text)

    def lineno(self, pos):
        return self.text.count('\n', 0, pos) + 1

    def item(self, kind, name):
        """struct / enum at top level: returns (start, end) incl. attributes."""
        mm = re.search(r'^(pub(\([a-z]+\))?\s+)?%s\s+%s\b' % (kind, re.escape(name)), self.mask, re.M)
        if not mm:
            raise ScanError('lost anchor: %s %s not found in %s' % (kind, name, self.path))
        brace = first_at_depth0(self.mask, mm.end(), '{;')
        if brace < 0:
            raise ScanError('lost anchor: %s %s has no body' % (kind, name))
        end = match_close(self.mask, brace) + 1 if self.mask[brace] == '{' else brace + 1
        return attrs_start(self.text, self.mask, mm.start()), end

    def const(self, name):
        mm = re.search(r'^\s*(pub(\([a-z]+\))?\s+)?const\s+%s\s*:' % re.escape(name), self.mask, re.M)
        if not mm:
            raise ScanError('lost anchor: const %s not found in %s' % (name, self.path))
        end = first_at_depth0(self.mask, mm.end(), ';')
        return line_start(self.text, mm.end() - 1), end + 1

    def impl_blocks(self):
        res = []
        for mm in re.finditer(r'^impl\b[^{;]*\{', self.mask, re.M):
            ob = mm.end() - 1
            res.append((self.mask[mm.start():ob].strip(), ob, match_close(self.mask, ob)))
        return res

    def fn_in_impl(self, impl_header_re, name):
        """Find `fn name` directly inside an impl block whose header matches."""
        hits = []
        for hdr, ob, cb in self.impl_blocks():
            if not re.search(impl_header_re, re.sub(r'\s+', ' ', hdr)):
                continue
            for mm in re.finditer(r'\bfn\s+%s\b' % re.escape(name), self.mask[ob:cb]):
                p = ob + mm.start()
                # must be at depth 1 inside the impl block
                depth = 0
                for ch in self.mask[ob + 1:p]:
                    if ch == '{':
                        depth += 1
                    elif ch == '}':
                        depth -= 1
                if depth != 0:
                    continue
                hits.append((hdr, p))
        if not hits:
            raise ScanError('lost anchor: fn %s not found in impl /%s/ of %s' % (name, impl_header_re, self.path))
        if len(hits) > 1:
            raise ScanError('ambiguous: fn %s found %d times' % (name, len(hits)))
        hdr, p = hits[0]
        start = line_start(self.text, p)
        brace = first_at_depth0(self.mask, p, '{;')
        if brace < 0 or self.mask[brace] != '{':
            raise ScanError('fn %s has no body' % name)
        end = match_close(self.mask, brace) + 1
        return hdr, start, brace, end

    def free_fn(self, name):
        mm = re.search(r'^(pub(\([a-z]+\))?\s+)?fn\s+%s\b' % re.escape(name), self.mask, re.M)
        if not mm:
            raise ScanError('lost anchor: free fn %s not found' % name)
        brace = first_at_depth0(self.mask, mm.end(), '{;')
        end = match_close(self.mask, brace) + 1
        return mm.start(), brace, end


def find_loops(m: str):
    """Loops in a function text (masked), in textual (pre-)order.
    Returns list of dicts: kw_pos (start of label or keyword), kw ('for'/'while'/'loop'),
    in_pos (index just after ' in ' for for-loops), open (index of body '{'), close."""
    res = []
    for mm in re.finditer(r"(?:'[a-z_]+\s*:\s*)?\b(for|while|loop)\b", m):
        kw = mm.group(1)
        # exclude identifiers such as `for_each` (handled by \b) and `.loop`
        if mm.start() > 0 and m[mm.start() - 1] == '.':
            continue
        ob = first_at_depth0(m, mm.end(), '{')
        if ob < 0:
            continue
        in_pos = None
        if kw == 'for':
            im = re.search(r'\bin\s+', m[mm.end():ob])
            if not im:
                continue
            in_pos = mm.end() + im.end()
        res.append(dict(kw=kw, kw_pos=mm.start(), in_pos=in_pos, open=ob, close=match_close(m, ob)))
    return res


CLOSURE_RE = re.compile(r'(?<=[(,=])\s*(move\s+)?\|([^|\n]*)\|')


def find_closures(m: str):
    """Closures written as `(|args| body` / `= |args| body` / `, |args| body`.
    Returns list of dicts: bar0 (index of first '|'), bar1 (index after second '|'),
    args, body_start, body_end (exclusive), braced(bool)."""
    res = []
    for mm in CLOSURE_RE.finditer(m):
        bar0 = m.index('|', mm.start())
        bar1 = mm.end()
        # optional return type
        k = bar1
        while k < len(m) and m[k].isspace():
            k += 1
        if m.startswith('->', k):
            ob = first_at_depth0(m, k, '{')
            body_start, body_end, braced = ob, match_close(m, ob) + 1, True
            bar1 = ob  # the annotated header replaces `|args| -> T ` as a whole
        elif m[k] == '{':
            body_start, body_end, braced = k, match_close(m, k) + 1, True
        else:
            e = first_at_depth0(m, k, '),;')
            if e < 0:
                e = len(m)
            body_start, body_end, braced = k, e, False
            # trim trailing whitespace
            while body_end > body_start and m[body_end - 1].isspace():
                body_end -= 1
        res.append(dict(bar0=bar0, bar1=bar1, args=mm.group(2), body_start=body_start, body_end=body_end, braced=braced))
    return res


BLOCK_KW = re.compile(r"(?:'[a-z_]+\s*:\s*)?(if|for|while|loop|match|unsafe)\b|\{")


def top_statements(m: str, open_brace: int):
    """Top-level statements of the block whose '{' is at open_brace (masked text).
    Returns list of (start, end) with end exclusive (just after ';' or the closing '}')."""
    close = match_close(m, open_brace)
    res = []
    i = open_brace + 1
    while True:
        while i < close and m[i].isspace():
            i += 1
        if i >= close:
            break
        start = i
        blocklike = BLOCK_KW.match(m, i) is not None
        depth = 0
        j = i
        end = None
        while j < close:
            ch = m[j]
            if ch in OPEN:
                depth += 1
            elif ch in CLOSE:
                depth -= 1
                if depth == 0 and ch == '}' and blocklike:
                    # block statement ends here unless followed by else / method chain / operator
                    k = j + 1
                    while k < close and m[k].isspace():
                        k += 1
                    rest = m[k:k + 5]
                    if rest.startswith('else') or rest[:1] in ('.', '?') or rest[:1] == ';':
                        pass
                    else:
                        end = j + 1
                        break
            elif ch == ';' and depth == 0:
                end = j + 1
                break
            j += 1
        if end is None:
            end = close  # tail expression
            # trim trailing whitespace
            while end > start and m[end - 1].isspace():
                end -= 1
            res.append((start, end))
            break
        res.append((start, end))
        i = end
    return res
