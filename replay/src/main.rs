//! replay: runs a JSON script against the REAL memterm crate (path dependency on /repo,
//! rebuilt from the working tree) and reports panics and failed expectations.
//! Exit 0: script ran, every expectation held, no panic.  Exit 1: a panic or a failed
//! expectation (i.e. the real code exhibits the behaviour the script describes as wrong).
use std::collections::BTreeMap;
use std::panic::{catch_unwind, AssertUnwindSafe};
use std::sync::{Arc, Mutex};

use memterm::byte_parser::ByteParser;
use memterm::parser::Parser;
use memterm::parser_listener::ParserListener;
use memterm::screen::{CharOpts, Charset, Margins, Screen};
use serde_json::{json, Value};

fn cell_json(c: &CharOpts) -> Value {
    json!({"data": c.data, "fg": c.fg, "bg": c.bg, "bold": c.bold, "italics": c.italics,
           "underscore": c.underscore, "strikethrough": c.strikethrough, "reverse": c.reverse, "blink": c.blink})
}

fn sorted(s: &std::collections::HashSet<u32>) -> Vec<u32> {
    let mut v: Vec<u32> = s.iter().cloned().collect();
    v.sort();
    v
}

/// Observable snapshot; does not mutate the screen (no display() call).
fn snapshot(s: &Screen) -> Value {
    let dflt = s.default_char();
    let mut grid = Vec::new();
    for y in 0..s.lines {
        let mut row = Vec::new();
        for x in 0..s.columns {
            let c = s.buffer.get(&y).and_then(|l| l.get(&x)).unwrap_or(&dflt);
            row.push(cell_json(c));
        }
        grid.push(Value::Array(row));
    }
    let mut hidden = BTreeMap::new();
    for (y, l) in s.buffer.iter() {
        for (x, c) in l.iter() {
            if *y >= s.lines || *x >= s.columns {
                hidden.insert(format!("{},{}", y, x), cell_json(c));
            }
        }
    }
    let text: Vec<String> = (0..s.lines)
        .map(|y| (0..s.columns).map(|x| s.buffer.get(&y).and_then(|l| l.get(&x)).map(|c| c.data.clone()).unwrap_or(" ".to_string())).collect::<Vec<_>>().join(""))
        .collect();
    json!({
        "columns": s.columns, "lines": s.lines,
        "cursor": {"x": s.cursor.x, "y": s.cursor.y, "hidden": s.cursor.hidden, "attr": cell_json(&s.cursor.attr)},
        "margins": s.margins.map(|m| json!([m.top, m.bottom])),
        "mode": sorted(&s.mode), "dirty": sorted(&s.dirty), "tabstops": sorted(&s.tabstops),
        "title": s.title, "icon_name": s.icon_name,
        "charset": if s.charset == Charset::G0 { "G0" } else { "G1" },
        "g0_is_lat1": s.g0_charset.iter().enumerate().all(|(i, c)| *c as u32 == i as u32),
        "g1_5f": s.g1_charset[0x5f] as u32,
        "savepoints": s.savepoints.len(), "saved_columns": s.saved_columns,
        "text": text, "grid": grid, "hidden_cells": hidden,
    })
}

fn opt_u32(v: Option<&Value>) -> Option<u32> {
    v.and_then(|x| x.as_u64()).map(|x| x as u32)
}

fn lookup<'a>(v: &'a Value, path: &str) -> Option<&'a Value> {
    let mut cur = v;
    for part in path.split('.') {
        cur = match cur {
            Value::Object(m) => m.get(part)?,
            Value::Array(a) => a.get(part.parse::<usize>().ok()?)?,
            _ => return None,
        };
    }
    Some(cur)
}

fn api_call(s: &mut Screen, name: &str, step: &Value) -> Result<Option<Value>, String> {
    let args: Vec<Value> = step.get("args").and_then(|a| a.as_array()).cloned().unwrap_or_default();
    let a0 = opt_u32(args.get(0));
    let a1 = opt_u32(args.get(1));
    let text = step.get("text").and_then(|t| t.as_str()).unwrap_or("");
    let modes: Vec<u32> = step.get("modes").and_then(|a| a.as_array()).map(|a| a.iter().filter_map(|x| x.as_u64()).map(|x| x as u32).collect()).unwrap_or_default();
    let private = step.get("private").and_then(|b| b.as_bool()).unwrap_or(false);
    match name {
        "alignment_display" => s.alignment_display(),
        "define_charset" => s.define_charset(step["code"].as_str().unwrap_or(""), step["mode"].as_str().unwrap_or("")),
        "reset" => s.reset(),
        "index" => s.index(),
        "linefeed" => s.linefeed(),
        "reverse_index" => s.reverse_index(),
        "set_tab_stop" => s.set_tab_stop(),
        "save_cursor" => s.save_cursor(),
        "restore_cursor" => s.restore_cursor(),
        "shift_out" => s.shift_out(),
        "shift_in" => s.shift_in(),
        "bell" => s.bell(),
        "backspace" => s.backspace(),
        "tab" => s.tab(),
        "cariage_return" => s.cariage_return(),
        "draw" => s.draw(text),
        "insert_characters" => s.insert_characters(a0),
        "cursor_up" => s.cursor_up(a0),
        "cursor_down" => s.cursor_down(a0),
        "cursor_forward" => s.cursor_forward(a0),
        "cursor_back" => s.cursor_back(a0),
        "cursor_down1" => s.cursor_down1(a0),
        "cursor_up1" => s.cursor_up1(a0),
        "cursor_to_column" => s.cursor_to_column(a0),
        "cursor_position" => s.cursor_position(a0, a1),
        "erase_in_display" => s.erase_in_display(a0, None),
        "erase_in_line" => s.erase_in_line(a0, None),
        "insert_lines" => s.insert_lines(a0),
        "delete_lines" => s.delete_lines(a0),
        "delete_characters" => s.delete_characters(a0),
        "erase_characters" => s.erase_characters(a0),
        "report_device_attributes" => s.report_device_attributes(a0, None),
        "cursor_to_line" => s.cursor_to_line(a0),
        "clear_tab_stop" => s.clear_tab_stop(a0),
        "set_mode" => s.set_mode(&modes, private),
        "reset_mode" => s.reset_mode(&modes, private),
        "select_graphic_rendition" => s.select_graphic_rendition(&modes),
        "set_title" => s.set_title(text),
        "set_icon_name" => s.set_icon_name(text),
        "set_margins" => s.set_margins(a0, a1),
        "resize" => s.resize(a0, a1),
        "display" => return Ok(Some(json!(s.display()))),
        "clear_dirty" => s.dirty.clear(),
        _ => return Err(format!("unknown call {}", name)),
    }
    Ok(None)
}

/// direct set-up of a pre-state through the pub fields
fn apply_set(s: &mut Screen, set: &Value) {
    if let Some(o) = set.as_object() {
        for (k, v) in o {
            match k.as_str() {
                "cursor.x" => s.cursor.x = v.as_u64().unwrap() as u32,
                "cursor.y" => s.cursor.y = v.as_u64().unwrap() as u32,
                "margins" => s.margins = v.as_array().map(|a| Margins { top: a[0].as_u64().unwrap() as u32, bottom: a[1].as_u64().unwrap() as u32 }),
                "mode_add" => for m in v.as_array().unwrap() { s.mode.insert(m.as_u64().unwrap() as u32); },
                "mode_remove" => for m in v.as_array().unwrap() { s.mode.remove(&(m.as_u64().unwrap() as u32)); },
                "tabstops" => { s.tabstops.clear(); for m in v.as_array().unwrap() { s.tabstops.insert(m.as_u64().unwrap() as u32); } }
                "cells" => for c in v.as_array().unwrap() {
                    // [y, x, "data"] materialise a cell with default attributes
                    let (y, x) = (c[0].as_u64().unwrap() as u32, c[1].as_u64().unwrap() as u32);
                    let mut ch = s.default_char();
                    ch.data = c[2].as_str().unwrap().to_string();
                    if let Some(fg) = c.get(3).and_then(|f| f.as_str()) { ch.fg = fg.to_string(); }
                    s.buffer.entry(y).or_default().insert(x, ch);
                },
                "rows" => for r in v.as_array().unwrap() {
                    // [y, "text"] materialise a whole row, one char per cell
                    let y = r[0].as_u64().unwrap() as u32;
                    for (x, chr) in r[1].as_str().unwrap().chars().enumerate() {
                        let mut ch = s.default_char();
                        ch.data = chr.to_string();
                        s.buffer.entry(y).or_default().insert(x as u32, ch);
                    }
                },
                _ => panic!("unknown set key {}", k),
            }
        }
    }
}

fn main() {
    let args: Vec<String> = std::env::args().collect();
    if args.len() < 2 {
        eprintln!("usage: replay <script.json> [--quiet]");
        std::process::exit(2);
    }
    let quiet = args.iter().any(|a| a == "--quiet");
    let script: Value = serde_json::from_str(&std::fs::read_to_string(&args[1]).expect("read script")).expect("parse script");
    let columns = script["columns"].as_u64().unwrap_or(80) as u32;
    let lines = script["lines"].as_u64().unwrap_or(24) as u32;
    std::panic::set_hook(Box::new(|_| {}));
    let screen = Arc::new(Mutex::new(Screen::new(columns, lines)));
    let mut parser = Parser::new(screen.clone());
    let mut bparser = ByteParser::new(screen.clone());
    let mut failures: Vec<Value> = Vec::new();
    let mut panicked: Option<String> = None;
    let mut last_display: Option<Value> = None;
    let mut trace: Vec<Value> = Vec::new();
    let steps = script["steps"].as_array().cloned().unwrap_or_default();
    for (i, step) in steps.iter().enumerate() {
        let r = catch_unwind(AssertUnwindSafe(|| -> Result<(), String> {
            if let Some(name) = step.get("call").and_then(|c| c.as_str()) {
                let mut s = screen.lock().map_err(|_| "listener mutex poisoned".to_string())?;
                if let Some(d) = api_call(&mut s, name, step)? {
                    last_display = Some(d);
                }
            } else if let Some(t) = step.get("feed").and_then(|c| c.as_str()) {
                parser.feed(t.to_string());
            } else if let Some(b) = step.get("feed_bytes").and_then(|c| c.as_array()) {
                let bytes: Vec<u8> = b.iter().map(|x| x.as_u64().unwrap() as u8).collect();
                bparser.feed(&bytes);
            } else if let Some(c) = step.get("byte_charset").and_then(|c| c.as_str()) {
                bparser.select_other_charset(c);
            } else if let Some(b) = step.get("use_utf8").and_then(|c| c.as_bool()) {
                parser.set_use_utf8(b);
            } else if let Some(kind) = step.get("dispatch").and_then(|c| c.as_str()) {
                // probe a dispatcher of the real crate with a recording listener
                let fin = step["final"].as_str().unwrap_or("").to_string();
                let params: Vec<u32> = step["params"].as_array().map(|a| a.iter().filter_map(|x| x.as_u64()).map(|x| x as u32).collect()).unwrap_or_default();
                let private = step["private"].as_bool().unwrap_or(false);
                let mut c = memterm::counter::Counter::new();
                match kind {
                    "csi" => c.csi_dispatch(&fin, &params[..], private),
                    "escape" => c.escape_dispatch(&fin),
                    _ => c.basic_dispatch(&fin),
                }
                println!("DISPATCH-PROBE {} {:?} params={:?} private={} -> recorded calls: {:?}", kind, fin, params, private, c.counts);
                if let Some(exp) = step.get("expect_call").and_then(|e| e.as_str()) {
                    if c.counts.get(exp).copied().unwrap_or(0) != 1 {
                        return Err(format!("dispatch probe: expected one call of {}, recorded {:?}", exp, c.counts));
                    }
                }
            } else if let Some(chunks) = step.get("byte_events").and_then(|c| c.as_array()) {
                // feed byte chunks to a NEW ByteParser of the real crate whose listener is the crate's own Counter: event-level probe
                let c = std::sync::Arc::new(std::sync::Mutex::new(memterm::counter::Counter::new()));
                let mut bp = memterm::byte_parser::ByteParser::new(c.clone());
                for ch in chunks {
                    let bytes: Vec<u8> = ch.as_array().map(|a| a.iter().map(|x| x.as_u64().unwrap() as u8).collect()).unwrap_or_default();
                    bp.feed(&bytes);
                }
                let counts = c.lock().map_err(|_| "counter mutex poisoned".to_string())?.counts.clone();
                println!("BYTE-EVENTS-PROBE {} -> recorded calls: {:?}", step["byte_events"], counts);
                if let Some(exp) = step.get("expect_counts").and_then(|e| e.as_object()) {
                    for (name, want) in exp {
                        let got = counts.get(name.as_str()).copied().unwrap_or(0) as i64;
                        if Some(got) != want.as_i64() {
                            return Err(format!("byte-events probe: expected {} call(s) of {}, recorded {}", want, name, got));
                        }
                    }
                }
            } else if let Some(set) = step.get("set") {
                let mut s = screen.lock().map_err(|_| "listener mutex poisoned".to_string())?;
                apply_set(&mut s, set);
            } else if let Some(exp) = step.get("expect") {
                let s = screen.lock().map_err(|_| "listener mutex poisoned".to_string())?;
                let mut snap = snapshot(&s);
                if let Some(d) = &last_display {
                    snap["display"] = d.clone();
                }
                for (path, want) in exp.as_object().unwrap() {
                    let got = lookup(&snap, path).cloned().unwrap_or(Value::Null);
                    if &got != want {
                        failures.push(json!({"step": i, "path": path, "expected": want, "got": got}));
                    }
                }
            } else {
                return Err(format!("unknown step {}", step));
            }
            Ok(())
        }));
        match r {
            Ok(Ok(())) => {}
            Ok(Err(e)) => {
                failures.push(json!({"step": i, "error": e}));
            }
            Err(p) => {
                let msg = p.downcast_ref::<String>().cloned().or_else(|| p.downcast_ref::<&str>().map(|s| s.to_string())).unwrap_or("panic".to_string());
                panicked = Some(format!("step {}: {}", i, msg));
                break;
            }
        }
        if !quiet {
            if let Ok(s) = screen.lock() {
                let sn = snapshot(&s);
                trace.push(json!({"step": i, "cursor": sn["cursor"]["x"].as_u64().map(|x| json!([x, sn["cursor"]["y"]])), "text": sn["text"], "dirty": sn["dirty"], "hidden_cells": sn["hidden_cells"]}));
            }
        }
    }
    let ok = failures.is_empty() && panicked.is_none();
    let out = json!({"script": args[1], "description": script.get("description"), "ok": ok, "panicked": panicked, "failed_expectations": failures, "trace": trace});
    println!("{}", serde_json::to_string_pretty(&out).unwrap());
    std::process::exit(if ok { 0 } else { 1 });
}
