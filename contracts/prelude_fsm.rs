// ===========================================================================
// prelude_fsm.rs -- unit F: the shipping escape-sequence recogniser (the closure passed to
// Gn::new_scoped in Parser::new, #[cfg(not(test))] copy) verified as a non-terminating procedure
// that talks to two ghost-instrumented externals (DESIGN.md 3.5 F):
//   * co_next(..)   = `co.yield_(v).unwrap_or_default()`: hands `v` to the feeder and returns the next character;
//                     its PRECONDITION is the trace invariant "everything emitted so far equals what the
//                     grammar prescribes for everything consumed so far, and v signals ground correctly"
//   * listener.m(..) = `listener.lock().unwrap().m(..)`: appends the call to a ghost log
// The grammar (run/step below) is written from the C03/C19 statement, independently of the code.
// ===========================================================================

// ---- stand-ins for the coroutine scope, the shared listener and the shared parser state -----------------
pub struct Co { pub consumed: Ghost<Seq<char>> }
pub struct Lst { pub log: Ghost<Seq<Ev>> }
pub struct PState { pub use_utf8: bool }

/// the raw coroutine step (TRUSTED): `co.yield_(v)` suspends, the feeder sends exactly one character
#[verifier::external_body]
pub fn co_raw_next(co: &mut Co, v: Option<bool>) -> (r: String)
    ensures
        r@.len() == 1,
        final(co).consumed@ == old(co).consumed@.push(r@[0]),
{
    unimplemented!() // real expression: co.yield_(v).unwrap_or_default()
}

/// `co.yield_(v).unwrap_or_default()` with the trace invariant as precondition (verified wrapper around co_raw_next)
pub fn co_next(co: &mut Co, v: Option<bool>, listener: &Lst, ps: &PState) -> (r: String)
    requires
        listener.log@ =~= run(old(co).consumed@, ps.use_utf8).1,                                  // everything emitted == what the grammar prescribes
        (v == Some(true)) == (run(old(co).consumed@, ps.use_utf8).0 is Ground),                   // the ground signal is right
        v == Some(true) || v.is_none(),
    ensures
        r@.len() == 1,
        final(co).consumed@ == old(co).consumed@.push(r@[0]),
        run(final(co).consumed@, ps.use_utf8).0 == step(run(old(co).consumed@, ps.use_utf8).0, r@[0], ps.use_utf8).0,
        run(final(co).consumed@, ps.use_utf8).1 == listener.log@ + step(run(old(co).consumed@, ps.use_utf8).0, r@[0], ps.use_utf8).1,
{
    let r = co_raw_next(co, v);
    proof { lemma_run_push(old(co).consumed@, r@[0], ps.use_utf8); }
    r
}

impl Lst {
    #[verifier::external_body]
    pub fn alignment_display(&mut self)
        ensures final(self).log@ == old(self).log@.push(Ev::Align),
    { unimplemented!() }
    #[verifier::external_body]
    pub fn define_charset(&mut self, code: &String, mode: &String)
        requires code@.len() == 1, mode@.len() == 1,
        ensures final(self).log@ == old(self).log@.push(Ev::DefCs { code: code@[0], mode: mode@[0] }),
    { unimplemented!() }
    #[verifier::external_body]
    pub fn escape_dispatch(&mut self, c: &String)
        requires c@.len() == 1,
        ensures final(self).log@ == old(self).log@.push(Ev::Esc { fin: c@[0] }),
    { unimplemented!() }
    #[verifier::external_body]
    pub fn basic_dispatch(&mut self, c: &String)
        requires c@.len() == 1,
        ensures final(self).log@ == old(self).log@.push(Ev::Basic { c: c@[0] }),
    { unimplemented!() }
    #[verifier::external_body]
    pub fn draw(&mut self, c: &String)
        requires c@.len() == 1,
        ensures final(self).log@ == old(self).log@.push(Ev::Draw { c: c@[0] }),
    { unimplemented!() }
    /// the CSI call also carries the C01 obligation: no parameter above 9999 ever reaches the screen
    #[verifier::external_body]
    pub fn csi_dispatch(&mut self, c: &String, params: &[u32], private: bool)
        requires c@.len() == 1, forall|i: int| 0 <= i < params@.len() ==> #[trigger] params@[i] <= 9999,
        ensures final(self).log@ == old(self).log@.push(Ev::Csi { fin: c@[0], params: params@, private: private }),
    { unimplemented!() }
    #[verifier::external_body]
    pub fn set_icon_name(&mut self, t: &String)
        ensures final(self).log@ == old(self).log@.push(Ev::Icon { text: t@ }),
    { unimplemented!() }
    #[verifier::external_body]
    pub fn set_title(&mut self, t: &String)
        ensures final(self).log@ == old(self).log@.push(Ev::Title { text: t@ }),
    { unimplemented!() }
}

#[verifier::external_type_specification] #[verifier::external_body] pub struct ExParseIntError(std::num::ParseIntError);

// ---- TRUSTED string-level call-outs (each body is the original expression) -----------------------------
/// `A == B` between a String and a &str (either order)
#[verifier::external_body]
pub fn str_eq(a: &String, b: &str) -> (r: bool)
    ensures
        r == (a@ == b@),
        a@.len() == 1 && b@.len() == 1 ==> r == (a@[0] == b@[0]),   // (a consequence of the first clause by extensionality)
{ a == b }
/// `LIT.contains(&S)` for a one-character S
#[verifier::external_body]
pub fn lit_contains(lit: &str, s: &String) -> (r: bool)
    requires s@.len() == 1,
    ensures
        r == lit@.contains(s@[0]),
        forall|i: int| 0 <= i < lit@.len() && #[trigger] lit@[i] == s@[0] ==> r,   // (a consequence of the first clause)
{ lit.contains(s.as_str()) }
/// `ARR.iter().any(|cf| *cf == S)` / `ARR.contains(&S.as_str())`
#[verifier::external_body]
pub fn strs_any_eq(arr: &[&str], s: &String) -> (r: bool)
    ensures r == tbl_has(arr@, s@),
{ arr.iter().any(|cf| *cf == s) }
/// membership of a string in a table of strings
pub open spec fn tbl_has(arr: Seq<&str>, s: Seq<char>) -> bool { exists|i: int| 0 <= i < arr.len() && (#[trigger] arr[i])@ == s }
/// `S.chars().next().unwrap()`
#[verifier::external_body]
pub fn first_char(s: &String) -> (r: char)
    requires s@.len() >= 1,
    ensures r == s@[0],
{ s.chars().next().unwrap() }
/// `S.chars().next().unwrap().is_ascii_digit()`
#[verifier::external_body]
pub fn first_is_digit(s: &String) -> (r: bool)
    requires s@.len() >= 1,
    ensures r == is_digit(s@[0]),
{ s.chars().next().unwrap().is_ascii_digit() }
#[verifier::external_body]
pub fn string_push(s: &mut String, c: char)
    ensures final(s)@ == old(s)@.push(c),
{ s.push(c) }
#[verifier::external_body]
pub fn string_push_str(s: &mut String, t: &String)
    ensures final(s)@ == old(s)@ + t@,
{ s.push_str(t) }
#[verifier::external_body]
pub fn string_is_empty(s: &String) -> (r: bool)
    ensures r == (s@.len() == 0),
{ s.is_empty() }
/// `S.remove(0)`: panics on an empty string
#[verifier::external_body]
pub fn string_remove0(s: &mut String) -> (r: char)
    requires old(s)@.len() > 0,
    ensures final(s)@ == old(s)@.drop_first(), r == old(s)@[0],
{ s.remove(0) }
/// `S.parse::<u64>()` for a string of ASCII digits: Ok(value) iff non-empty and the value fits
#[verifier::external_body]
pub fn parse_u64(s: &String) -> (r: Result<u64, std::num::ParseIntError>)
    requires forall|i: int| 0 <= i < s@.len() ==> is_digit(#[trigger] s@[i]),
    ensures
        match r { Ok(v) => s@.len() > 0 && dec_val(s@) == v as nat, Err(_) => s@.len() == 0 || dec_val(s@) > u64::MAX as nat },
{ s.parse::<u64>() }
/// `&V[..]`
#[verifier::external_body]
pub fn vec_as_slice(v: &Vec<u32>) -> (r: &[u32])
    ensures r@ == v@,
{ &v[..] }
/// `S.chars().skip(1).collect()`
#[verifier::external_body]
pub fn string_skip1(s: &String) -> (r: String)
    ensures r@ == (if s@.len() > 0 { s@.drop_first() } else { s@ }),
{ s.chars().skip(1).collect() }

/// values of the string tables of src/control.rs used by the recogniser: PROVED from the constants extracted verbatim
/// (they were assumed here and proved only by the Kani harness `control_tables` before; that harness still runs)
pub proof fn lemma_control_tables() //#lemma: C03 C19 C20
    ensures
        forall|s: Seq<char>| #![trigger tbl_has(BASIC@, s)] tbl_has(BASIC@, s) == (s.len() == 1 && is_basic(s[0])),
        forall|s: Seq<char>| #![trigger tbl_has(ALLOWED_IN_CSI@, s)] tbl_has(ALLOWED_IN_CSI@, s) == (s.len() == 1 && allowed_in_csi(s[0])),
        forall|s: Seq<char>| #![trigger tbl_has(OSC_TERMINATORS@, s)] tbl_has(OSC_TERMINATORS@, s) ==
            ((s.len() == 1 && (s[0] == '\u{7}' || s[0] == '\u{9c}')) || (s.len() == 2 && s[0] == '\u{1b}' && s[1] == '\\')),
{
    reveal_strlit("\u{7}"); reveal_strlit("\u{8}"); reveal_strlit("\u{9}"); reveal_strlit("\u{a}"); reveal_strlit("\u{b}");
    reveal_strlit("\u{c}"); reveal_strlit("\u{d}"); reveal_strlit("\u{e}"); reveal_strlit("\u{f}");
    reveal_strlit("\u{009C}"); reveal_strlit("\u{001B}\\");
    assert(BASIC@.len() == 9 && ALLOWED_IN_CSI@.len() == 7 && OSC_TERMINATORS@.len() == 3);
    assert forall|s: Seq<char>| #![trigger tbl_has(BASIC@, s)] tbl_has(BASIC@, s) == (s.len() == 1 && is_basic(s[0])) by {
        if s.len() == 1 && is_basic(s[0]) { let j = (s[0] as u32 - 7) as int; assert(BASIC@[j]@ =~= s); }
        if tbl_has(BASIC@, s) { let i = choose|i: int| 0 <= i < BASIC@.len() && (#[trigger] BASIC@[i])@ == s; assert(BASIC@[i]@.len() == 1); }
    }
    assert forall|s: Seq<char>| #![trigger tbl_has(ALLOWED_IN_CSI@, s)] tbl_has(ALLOWED_IN_CSI@, s) == (s.len() == 1 && allowed_in_csi(s[0])) by {
        if s.len() == 1 && allowed_in_csi(s[0]) { let j = (s[0] as u32 - 7) as int; assert(ALLOWED_IN_CSI@[j]@ =~= s); }
        if tbl_has(ALLOWED_IN_CSI@, s) { let i = choose|i: int| 0 <= i < ALLOWED_IN_CSI@.len() && (#[trigger] ALLOWED_IN_CSI@[i])@ == s; assert(ALLOWED_IN_CSI@[i]@.len() == 1); }
    }
    assert forall|s: Seq<char>| #![trigger tbl_has(OSC_TERMINATORS@, s)] tbl_has(OSC_TERMINATORS@, s) ==
            ((s.len() == 1 && (s[0] == '\u{7}' || s[0] == '\u{9c}')) || (s.len() == 2 && s[0] == '\u{1b}' && s[1] == '\\')) by {
        if s.len() == 1 && s[0] == '\u{7}' { assert(OSC_TERMINATORS@[0]@ =~= s); }
        if s.len() == 2 && s[0] == '\u{1b}' && s[1] == '\\' { assert(OSC_TERMINATORS@[1]@ =~= s); }
        if s.len() == 1 && s[0] == '\u{9c}' { assert(OSC_TERMINATORS@[2]@ =~= s); }
        if tbl_has(OSC_TERMINATORS@, s) { let i = choose|i: int| 0 <= i < OSC_TERMINATORS@.len() && (#[trigger] OSC_TERMINATORS@[i])@ == s; assert(0 <= i < 3); }
    }
}

/// the values of the one-character constants of src/control.rs (extracted verbatim; ascii!(hi/lo) evaluated mechanically)
pub proof fn lemma_fsm_consts() //#lemma: C03 C19
    ensures
        ESC@ == seq!['\u{1b}'], CSI@ == seq!['\u{9b}'], OSC@ == seq!['\u{9d}'], DECALN@ == seq!['8'],
        SI@ == seq!['\u{f}'], SO@ == seq!['\u{e}'], SP@ == seq![' '], GREATER@ == seq!['>'],
        CAN@ == seq!['\u{18}'], SUB@ == seq!['\u{1a}'],
{
    reveal_strlit("\u{1b}"); reveal_strlit("\u{009B}"); reveal_strlit("\u{009D}"); reveal_strlit("\u{38}");
    reveal_strlit("\u{f}"); reveal_strlit("\u{e}"); reveal_strlit("\u{20}"); reveal_strlit("\u{3e}");
    reveal_strlit("\u{18}"); reveal_strlit("\u{1a}");
}

/// the string literals that occur in the recogniser, by their characters
pub proof fn lemma_fsm_literals() //#lemma: C03 C19
    ensures
        "["@ == seq!['['], "]"@ == seq![']'], "#"@ == seq!['#'], "%"@ == seq!['%'], "()"@ == seq!['(', ')'], "?"@ == seq!['?'],
        "$"@ == seq!['$'], ";"@ == seq![';'], "R"@ == seq!['R'], "p"@ == seq!['p'], "01"@ == seq!['0', '1'], "02"@ == seq!['0', '2'],
        ""@ == Seq::<char>::empty(),
{
    reveal_strlit("["); reveal_strlit("]"); reveal_strlit("#"); reveal_strlit("%"); reveal_strlit("()"); reveal_strlit("?");
    reveal_strlit("$"); reveal_strlit(";"); reveal_strlit("R"); reveal_strlit("p"); reveal_strlit("01"); reveal_strlit("02"); reveal_strlit("");
    assert("["@ =~= seq!['[']); assert("]"@ =~= seq![']']); assert("#"@ =~= seq!['#']); assert("%"@ =~= seq!['%']); assert("()"@ =~= seq!['(', ')']);
    assert("?"@ =~= seq!['?']); assert("$"@ =~= seq!['$']); assert(";"@ =~= seq![';']); assert("R"@ =~= seq!['R']); assert("p"@ =~= seq!['p']);
    assert("01"@ =~= seq!['0', '1']); assert("02"@ =~= seq!['0', '2']); assert(""@ =~= Seq::<char>::empty());
}

pub open spec fn is_csi(st: St, params: Seq<u32>, cur: Seq<char>, private: bool) -> bool {
    match st { St::Csi { params: p, cur: c, private: q } => p =~= params && c =~= cur && q == private, _ => false }
}
pub open spec fn is_osc(st: St, code: char, payload: Seq<char>, esc: bool) -> bool {
    match st { St::OscStr { code: k, payload: p, esc: e } => k == code && p =~= payload && e == esc, _ => false }
}
