// ===========================================================================
// prelude_fsm.rs -- unit F: the shipping escape-sequence recogniser (the closure passed to
// Gn::new_scoped in Parser::new, #[cfg(not(test))] copy) verified as a non-terminating procedure
// that talks to two ghost-instrumented externals (DESIGN.md 3.5 F):
//   * co_next(..)   = `co.yield_(v).unwrap_or_default()`: hands `v` to the feeder and returns the next character;
//                     its PRECONDITION is the trace invariant "everything emitted so far equals what the
//                     grammar prescribes for everything consumed so far, and v signals ground correctly"
//   * listener.m(..) = `listener.lock().unwrap().m(..)`: appends the call to a ghost log
// The grammar (run/step below) is written from the C03/C19 statement, independently of the code.
// ===========================================================================

// ---- events the listener can receive from the recogniser ----------------------------------------
pub enum Ev {
    Align,
    DefCs { code: char, mode: char },
    Esc { fin: char },
    Basic { c: char },
    Draw { c: char },
    Csi { fin: char, params: Seq<u32>, private: bool },
    Icon { text: Seq<char> },
    Title { text: Seq<char> },
}

// ---- the documented grammar as an explicit-state recogniser ------------------------------------------
pub enum St {
    Ground,
    Esc,
    EscHash,
    EscPct,
    EscCs { mode: char },
    Csi { params: Seq<u32>, cur: Seq<char>, private: bool },
    CsiDollar,
    OscCode,
    OscStr { code: char, payload: Seq<char>, esc: bool },
}

pub open spec fn is_basic(c: char) -> bool { 7 <= c as u32 <= 15 }            // BEL BS HT LF VT FF CR SO SI
pub open spec fn allowed_in_csi(c: char) -> bool { 7 <= c as u32 <= 13 }      // BEL BS HT LF VT FF CR
pub open spec fn is_digit(c: char) -> bool { 0x30 <= c as u32 <= 0x39 }

/// decimal value of a digit string (mathematical integer: no overflow)
pub open spec fn dec_val(s: Seq<char>) -> nat
    decreases s.len(),
{
    if s.len() == 0 { 0 } else { dec_val(s.drop_last()) * 10 + ((s.last() as u32 - 0x30) as nat) }
}
/// value of a collected CSI parameter: empty = 0, saturating at 9999
pub open spec fn param_val(s: Seq<char>) -> u32 {
    if s.len() == 0 { 0 } else if dec_val(s) > 9999 { 9999 } else { dec_val(s) as u32 }
}
/// OSC completed: code 0/1 set the icon name, 0/2 the title, to the text after the first character (the `;`)
pub open spec fn osc_events(code: char, payload: Seq<char>) -> Seq<Ev> {
    let text = if payload.len() > 0 { payload.drop_first() } else { payload };
    let a = if code == '0' || code == '1' { seq![Ev::Icon { text: text }] } else { Seq::<Ev>::empty() };
    let b = if code == '0' || code == '2' { seq![Ev::Title { text: text }] } else { Seq::<Ev>::empty() };
    a + b
}

pub open spec fn step(st: St, c: char, utf8: bool) -> (St, Seq<Ev>) {
    let none = Seq::<Ev>::empty();
    match st {
        St::Ground =>
            if c as u32 == 0x1b { (St::Esc, none) }
            else if c as u32 == 0x9b { (St::Csi { params: Seq::empty(), cur: Seq::empty(), private: false }, none) }
            else if c as u32 == 0x9d { (St::OscCode, none) }
            else if is_basic(c) { if (c as u32 == 14 || c as u32 == 15) && utf8 { (St::Ground, none) } else { (St::Ground, seq![Ev::Basic { c: c }]) } }
            else { (St::Ground, none) },
        St::Esc =>
            if c == '[' { (St::Csi { params: Seq::empty(), cur: Seq::empty(), private: false }, none) }
            else if c == ']' { (St::OscCode, none) }
            else if c == '#' { (St::EscHash, none) }
            else if c == '%' { (St::EscPct, none) }
            else if c == '(' || c == ')' { (St::EscCs { mode: c }, none) }
            else { (St::Ground, seq![Ev::Esc { fin: c }]) },
        St::EscHash => if c == '8' { (St::Ground, seq![Ev::Align]) } else { (St::Ground, none) },
        St::EscPct => (St::Ground, none),
        St::EscCs { mode } => if utf8 { (St::Ground, none) } else { (St::Ground, seq![Ev::DefCs { code: c, mode: mode }]) },
        St::Csi { params, cur, private } =>
            if c == '?' { (St::Csi { params: params, cur: cur, private: true }, none) }
            else if allowed_in_csi(c) { (st, seq![Ev::Basic { c: c }]) }
            else if c == ' ' || c == '>' { (st, none) }
            else if c as u32 == 0x18 || c as u32 == 0x1a { (St::Ground, seq![Ev::Draw { c: c }]) }
            else if is_digit(c) { (St::Csi { params: params, cur: cur.push(c), private: private }, none) }
            else if c == '$' { (St::CsiDollar, none) }
            else if c == ';' { (St::Csi { params: params.push(param_val(cur)), cur: Seq::empty(), private: private }, none) }
            else { (St::Ground, seq![Ev::Csi { fin: c, params: params.push(param_val(cur)), private: private }]) },
        St::CsiDollar => (St::Ground, none),
        St::OscCode => if c == 'R' || c == 'p' { (St::Ground, none) } else { (St::OscStr { code: c, payload: Seq::empty(), esc: false }, none) },
        St::OscStr { code, payload, esc } =>
            if !esc {
                if c as u32 == 0x1b { (St::OscStr { code: code, payload: payload, esc: true }, none) }
                else if c as u32 == 7 || c as u32 == 0x9c { (St::Ground, osc_events(code, payload)) }
                else { (St::OscStr { code: code, payload: payload.push(c), esc: false }, none) }
            } else {
                if c == '\\' { (St::Ground, osc_events(code, payload)) }
                else { (St::OscStr { code: code, payload: payload.push('\u{1b}').push(c), esc: false }, none) }
            },
    }
}

/// state and events after a whole input (recursion on the last character: appending is one unfolding)
pub open spec fn run(inp: Seq<char>, utf8: bool) -> (St, Seq<Ev>)
    decreases inp.len(),
{
    if inp.len() == 0 { (St::Ground, Seq::<Ev>::empty()) }
    else {
        let prev = run(inp.drop_last(), utf8);
        let s = step(prev.0, inp.last(), utf8);
        (s.0, prev.1 + s.1)
    }
}
pub proof fn lemma_run_push(inp: Seq<char>, c: char, utf8: bool) //#lemma: C03 C19
    ensures run(inp.push(c), utf8) == (step(run(inp, utf8).0, c, utf8).0, run(inp, utf8).1 + step(run(inp, utf8).0, c, utf8).1),
{
    assert(inp.push(c).drop_last() =~= inp);
    assert(inp.push(c).last() == c);
}

// ---- stand-ins for the coroutine scope, the shared listener and the shared parser state -----------------
pub struct Co { pub consumed: Ghost<Seq<char>> }
pub struct Lst { pub log: Ghost<Seq<Ev>> }
pub struct PState { pub use_utf8: bool }

/// the raw coroutine step (TRUSTED): `co.yield_(v)` suspends, the feeder sends exactly one character
#[verifier::external_body]
pub fn co_raw_next(co: &mut Co, v: Option<bool>) -> (r: String)
    ensures
        r@.len() == 1,
        final(co).consumed@ == old(co).consumed@.push(r@[0]),
{
    unimplemented!() // real expression: co.yield_(v).unwrap_or_default()
}

/// `co.yield_(v).unwrap_or_default()` with the trace invariant as precondition (verified wrapper around co_raw_next)
pub fn co_next(co: &mut Co, v: Option<bool>, listener: &Lst, ps: &PState) -> (r: String)
    requires
        listener.log@ =~= run(old(co).consumed@, ps.use_utf8).1,                                  // everything emitted == what the grammar prescribes
        (v == Some(true)) == (run(old(co).consumed@, ps.use_utf8).0 is Ground),                   // the ground signal is right
        v == Some(true) || v.is_none(),
    ensures
        r@.len() == 1,
        final(co).consumed@ == old(co).consumed@.push(r@[0]),
        run(final(co).consumed@, ps.use_utf8).0 == step(run(old(co).consumed@, ps.use_utf8).0, r@[0], ps.use_utf8).0,
        run(final(co).consumed@, ps.use_utf8).1 == listener.log@ + step(run(old(co).consumed@, ps.use_utf8).0, r@[0], ps.use_utf8).1,
{
    let r = co_raw_next(co, v);
    proof { lemma_run_push(old(co).consumed@, r@[0], ps.use_utf8); }
    r
}

impl Lst {
    #[verifier::external_body]
    pub fn alignment_display(&mut self)
        ensures final(self).log@ == old(self).log@.push(Ev::Align),
    { unimplemented!() }
    #[verifier::external_body]
    pub fn define_charset(&mut self, code: &String, mode: &String)
        requires code@.len() == 1, mode@.len() == 1,
        ensures final(self).log@ == old(self).log@.push(Ev::DefCs { code: code@[0], mode: mode@[0] }),
    { unimplemented!() }
    #[verifier::external_body]
    pub fn escape_dispatch(&mut self, c: &String)
        requires c@.len() == 1,
        ensures final(self).log@ == old(self).log@.push(Ev::Esc { fin: c@[0] }),
    { unimplemented!() }
    #[verifier::external_body]
    pub fn basic_dispatch(&mut self, c: &String)
        requires c@.len() == 1,
        ensures final(self).log@ == old(self).log@.push(Ev::Basic { c: c@[0] }),
    { unimplemented!() }
    #[verifier::external_body]
    pub fn draw(&mut self, c: &String)
        requires c@.len() == 1,
        ensures final(self).log@ == old(self).log@.push(Ev::Draw { c: c@[0] }),
    { unimplemented!() }
    /// the CSI call also carries the C01 obligation: no parameter above 9999 ever reaches the screen
    #[verifier::external_body]
    pub fn csi_dispatch(&mut self, c: &String, params: &[u32], private: bool)
        requires c@.len() == 1, forall|i: int| 0 <= i < params@.len() ==> #[trigger] params@[i] <= 9999,
        ensures final(self).log@ == old(self).log@.push(Ev::Csi { fin: c@[0], params: params@, private: private }),
    { unimplemented!() }
    #[verifier::external_body]
    pub fn set_icon_name(&mut self, t: &String)
        ensures final(self).log@ == old(self).log@.push(Ev::Icon { text: t@ }),
    { unimplemented!() }
    #[verifier::external_body]
    pub fn set_title(&mut self, t: &String)
        ensures final(self).log@ == old(self).log@.push(Ev::Title { text: t@ }),
    { unimplemented!() }
}

#[verifier::external_type_specification] #[verifier::external_body] pub struct ExParseIntError(std::num::ParseIntError);

// ---- TRUSTED string-level call-outs (each body is the original expression) -----------------------------
/// `A == B` between a String and a &str (either order)
#[verifier::external_body]
pub fn str_eq(a: &String, b: &str) -> (r: bool)
    ensures
        r == (a@ == b@),
        a@.len() == 1 && b@.len() == 1 ==> r == (a@[0] == b@[0]),   // (a consequence of the first clause by extensionality)
{ a == b }
/// `LIT.contains(&S)` for a one-character S
#[verifier::external_body]
pub fn lit_contains(lit: &str, s: &String) -> (r: bool)
    requires s@.len() == 1,
    ensures
        r == lit@.contains(s@[0]),
        forall|i: int| 0 <= i < lit@.len() && #[trigger] lit@[i] == s@[0] ==> r,   // (a consequence of the first clause)
{ lit.contains(s.as_str()) }
/// `ARR.iter().any(|cf| *cf == S)` / `ARR.contains(&S.as_str())`
#[verifier::external_body]
pub fn strs_any_eq(arr: &[&str], s: &String) -> (r: bool)
    ensures r == tbl_has(arr@, s@),
{ arr.iter().any(|cf| *cf == s) }
/// membership of a string in a table of strings
pub open spec fn tbl_has(arr: Seq<&str>, s: Seq<char>) -> bool { exists|i: int| 0 <= i < arr.len() && (#[trigger] arr[i])@ == s }
/// `S.chars().next().unwrap()`
#[verifier::external_body]
pub fn first_char(s: &String) -> (r: char)
    requires s@.len() >= 1,
    ensures r == s@[0],
{ s.chars().next().unwrap() }
/// `S.chars().next().unwrap().is_ascii_digit()`
#[verifier::external_body]
pub fn first_is_digit(s: &String) -> (r: bool)
    requires s@.len() >= 1,
    ensures r == is_digit(s@[0]),
{ s.chars().next().unwrap().is_ascii_digit() }
#[verifier::external_body]
pub fn string_push(s: &mut String, c: char)
    ensures final(s)@ == old(s)@.push(c),
{ s.push(c) }
#[verifier::external_body]
pub fn string_push_str(s: &mut String, t: &String)
    ensures final(s)@ == old(s)@ + t@,
{ s.push_str(t) }
#[verifier::external_body]
pub fn string_is_empty(s: &String) -> (r: bool)
    ensures r == (s@.len() == 0),
{ s.is_empty() }
/// `S.parse::<u64>()` for a string of ASCII digits: Ok(value) iff non-empty and the value fits
#[verifier::external_body]
pub fn parse_u64(s: &String) -> (r: Result<u64, std::num::ParseIntError>)
    requires forall|i: int| 0 <= i < s@.len() ==> is_digit(#[trigger] s@[i]),
    ensures
        match r { Ok(v) => s@.len() > 0 && dec_val(s@) == v as nat, Err(_) => s@.len() == 0 || dec_val(s@) > u64::MAX as nat },
{ s.parse::<u64>() }
/// `&V[..]`
#[verifier::external_body]
pub fn vec_as_slice(v: &Vec<u32>) -> (r: &[u32])
    ensures r@ == v@,
{ &v[..] }
/// `S.chars().skip(1).collect()`
#[verifier::external_body]
pub fn string_skip1(s: &String) -> (r: String)
    ensures r@ == (if s@.len() > 0 { s@.drop_first() } else { s@ }),
{ s.chars().skip(1).collect() }

/// ASSUMED values of the string tables of src/control.rs used by the recogniser (their contents are proved by the
/// Kani harness `control_tables`)
#[verifier::external_body]
pub proof fn axiom_control_tables()
    ensures
        forall|s: Seq<char>| #![trigger tbl_has(BASIC@, s)] tbl_has(BASIC@, s) == (s.len() == 1 && is_basic(s[0])),
        forall|s: Seq<char>| #![trigger tbl_has(ALLOWED_IN_CSI@, s)] tbl_has(ALLOWED_IN_CSI@, s) == (s.len() == 1 && allowed_in_csi(s[0])),
        forall|s: Seq<char>| #![trigger tbl_has(OSC_TERMINATORS@, s)] tbl_has(OSC_TERMINATORS@, s) ==
            ((s.len() == 1 && (s[0] == '\u{7}' || s[0] == '\u{9c}')) || (s.len() == 2 && s[0] == '\u{1b}' && s[1] == '\\')),
{
}

/// the values of the one-character constants of src/control.rs (extracted verbatim; ascii!(hi/lo) evaluated mechanically)
pub proof fn lemma_fsm_consts() //#lemma: C03 C19
    ensures
        ESC@ == seq!['\u{1b}'], CSI@ == seq!['\u{9b}'], OSC@ == seq!['\u{9d}'], DECALN@ == seq!['8'],
        SI@ == seq!['\u{f}'], SO@ == seq!['\u{e}'], SP@ == seq![' '], GREATER@ == seq!['>'],
        CAN@ == seq!['\u{18}'], SUB@ == seq!['\u{1a}'],
{
    reveal_strlit("\u{1b}"); reveal_strlit("\u{009B}"); reveal_strlit("\u{009D}"); reveal_strlit("\u{38}");
    reveal_strlit("\u{f}"); reveal_strlit("\u{e}"); reveal_strlit("\u{20}"); reveal_strlit("\u{3e}");
    reveal_strlit("\u{18}"); reveal_strlit("\u{1a}");
}

/// the string literals that occur in the recogniser, by their characters
pub proof fn lemma_fsm_literals() //#lemma: C03 C19
    ensures
        "["@ == seq!['['], "]"@ == seq![']'], "#"@ == seq!['#'], "%"@ == seq!['%'], "()"@ == seq!['(', ')'], "?"@ == seq!['?'],
        "$"@ == seq!['$'], ";"@ == seq![';'], "R"@ == seq!['R'], "p"@ == seq!['p'], "01"@ == seq!['0', '1'], "02"@ == seq!['0', '2'],
        ""@ == Seq::<char>::empty(),
{
    reveal_strlit("["); reveal_strlit("]"); reveal_strlit("#"); reveal_strlit("%"); reveal_strlit("()"); reveal_strlit("?");
    reveal_strlit("$"); reveal_strlit(";"); reveal_strlit("R"); reveal_strlit("p"); reveal_strlit("01"); reveal_strlit("02"); reveal_strlit("");
    assert("["@ =~= seq!['[']); assert("]"@ =~= seq![']']); assert("#"@ =~= seq!['#']); assert("%"@ =~= seq!['%']); assert("()"@ =~= seq!['(', ')']);
    assert("?"@ =~= seq!['?']); assert("$"@ =~= seq!['$']); assert(";"@ =~= seq![';']); assert("R"@ =~= seq!['R']); assert("p"@ =~= seq!['p']);
    assert("01"@ =~= seq!['0', '1']); assert("02"@ =~= seq!['0', '2']); assert(""@ =~= Seq::<char>::empty());
}

pub open spec fn is_csi(st: St, params: Seq<u32>, cur: Seq<char>, private: bool) -> bool {
    match st { St::Csi { params: p, cur: c, private: q } => p =~= params && c =~= cur && q == private, _ => false }
}
pub open spec fn is_osc(st: St, code: char, payload: Seq<char>, esc: bool) -> bool {
    match st { St::OscStr { code: k, payload: p, esc: e } => k == code && p =~= payload && e == esc, _ => false }
}
