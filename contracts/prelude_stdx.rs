// ===========================================================================
// prelude_stdx.rs -- TRUSTED specifications of std functions that vstd leaves unspecified and that realistic edits of
// memterm reach for (character classes, ASCII tests, lengths).  Each is a true statement of the std documentation; where the
// full behaviour is a Unicode table the function is an uninterpreted predicate with its ASCII range stated.
// Without these a function that calls one of them is UNDECIDED (unsupported construct), never wrong -- with them it is decided.
// ===========================================================================
use vstd::std_specs::cmp::OrdSpec;
pub assume_specification[char::is_ascii](c: &char) -> (r: bool)
    ensures r == (*c as u32 <= 0x7f);
pub assume_specification[char::is_control](c: char) -> (r: bool)
    ensures r == (c as u32 <= 0x1f || 0x7f <= c as u32 <= 0x9f);   // general category Cc
pub assume_specification[char::is_ascii_digit](c: &char) -> (r: bool)
    ensures r == (0x30 <= *c as u32 <= 0x39);
pub assume_specification[char::is_ascii_control](c: &char) -> (r: bool)
    ensures r == (*c as u32 <= 0x1f || *c as u32 == 0x7f);
pub assume_specification[char::is_ascii_graphic](c: &char) -> (r: bool)
    ensures r == (0x21 <= *c as u32 <= 0x7e);
pub uninterp spec fn uc_numeric(c: char) -> bool;      // Unicode general categories Nd, Nl, No
pub uninterp spec fn uc_alphabetic(c: char) -> bool;   // Unicode derived property Alphabetic
pub assume_specification[char::is_numeric](c: char) -> (r: bool)
    ensures r == uc_numeric(c), c as u32 <= 0x7f ==> r == (0x30 <= c as u32 <= 0x39);
pub assume_specification[char::is_alphabetic](c: char) -> (r: bool)
    ensures r == uc_alphabetic(c), c as u32 <= 0x7f ==> r == (0x41 <= c as u32 <= 0x5a || 0x61 <= c as u32 <= 0x7a);
pub assume_specification[u32::abs_diff](a: u32, b: u32) -> (r: u32)
    ensures r == (if a >= b { a - b } else { b - a });
pub assume_specification[<[u8]>::is_ascii](s: &[u8]) -> (r: bool)
    ensures r == (forall|i: int| 0 <= i < s@.len() ==> #[trigger] s@[i] <= 0x7f);
/// length in bytes of the UTF-8 encoding
pub uninterp spec fn utf8_len(s: Seq<char>) -> nat;
pub assume_specification[String::len](s: &String) -> (r: usize)
    ensures r == utf8_len(s@), s@.len() <= r, r <= 4 * s@.len(),
        (forall|i: int| 0 <= i < s@.len() ==> #[trigger] s@[i] as u32 <= 0x7f) ==> r == s@.len();
pub assume_specification<T, F: FnOnce(T) -> bool>[Option::<T>::is_some_and](o: Option<T>, f: F) -> (r: bool)
    requires o.is_some() ==> f.requires((o.unwrap(),)),
    ensures match o { None => !r, Some(x) => f.ensures((x,), r) };
/// lossy UTF-8 decoding of a complete byte string (String::from_utf8_lossy): stateless, every ill-formed subsequence becomes U+FFFD
pub uninterp spec fn utf8_lossy(b: Seq<u8>) -> Seq<char>;
/// `String::from_utf8_lossy(B).into_owned()`
#[verifier::external_body]
pub fn from_utf8_lossy_owned(b: &[u8]) -> (r: String)
    ensures
        r@ == utf8_lossy(b@),
        (forall|i: int| 0 <= i < b@.len() ==> #[trigger] b@[i] <= 0x7f) ==> r@ == Seq::new(b@.len(), |i: int| b@[i] as char),
{ String::from_utf8_lossy(b).into_owned() }
pub assume_specification<T, E>[Result::<T, E>::unwrap_or](r: Result<T, E>, default: T) -> (v: T)
    ensures v == (match r { Ok(x) => x, Err(_) => default });
pub uninterp spec fn string_capacity(s: String) -> int;
pub assume_specification[String::with_capacity](n: usize) -> (r: String)
    ensures r@ == Seq::<char>::empty(), string_capacity(r) >= n;
#[verifier::allow(undeclared_external_trait)]
pub assume_specification<T: Ord + std::marker::Destruct>[std::cmp::max::<T>](a: T, b: T) -> (r: T)
    ensures T::obeys_cmp_spec() ==> r == (match a.cmp_spec(&b) { std::cmp::Ordering::Greater => a, _ => b });
