"""Registered expression-level call-out shims (DESIGN.md 3.3).
pattern: Python regex matched inside the function body text (DOTALL);
replace: replacement template (re.expand syntax) -- a call to a shim fn defined in a prelude,
or a type-checked structural rewrite.
Every instance is recorded in the woven file (original text base64 in the marker) and
listed in the evidence."""
SHIMS = {
    # define_charset(): lazy_static MAPS table and string compares called out
    'maps-has': dict(pattern=r'MAPS\.keys\(\)\.any\(\|&a\| a == code\)', replace=r'maps_has(code)', spec='r == maps_lookup(code@).is_some()'),
    'maps-get-opt': dict(pattern=r'MAPS\s*\.get\(code\)', replace=r'maps_get_opt(code)', spec='r == maps_lookup(code@) (as Option<&table>)'),
    'expect-format': dict(pattern=r'\.expect\(&format!\("[^"]*", code\)\)', replace=r'.expect("")', spec='the panic message is irrelevant; Option::expect keeps its is_some() precondition'),
    'lat1-ref': dict(pattern=r'&LAT1_MAP\b', replace=r'lat1_ref()', spec='*r == lat1_map()'),
    'mode-eq': dict(pattern=r'\bmode == ("[^"]*")', replace=r'strs_eq(mode, \1)', spec='r == (a@ == b@)'),
    # ---- unit F: the recogniser closure (all patterns are matched on comment/string-masked text) ----
    'f-yield-decaln': dict(pattern=r'co\.yield_\(None\)\.unwrap_or_default\(\) == DECALN', replace=r'str_eq(&co_next(&mut co, None, &listener, &parser_state_cloned), DECALN)', spec='co_next + str_eq'),
    'f-yield-pushstr': dict(pattern=r'accu\.push_str\(&co\.yield_\(None\)\.unwrap_or_default\(\)\);', replace=r'string_push_str(&mut accu, &co_next(&mut co, None, &listener, &parser_state_cloned));', spec='co_next + String::push_str'),
    'f-yield': dict(pattern=r'(?<!push_str\(&)co\.yield_\((Some\(true\)|None)\)\.unwrap_or_default\(\)(?! == DECALN)', replace=r'co_next(&mut co, \1, &listener, &parser_state_cloned)', spec='the trace-invariant yield, see prelude_fsm.rs'),
    'f-yield-bare': dict(pattern=r'co\.yield_\(None\);', replace=r'co_next(&mut co, None, &listener, &parser_state_cloned);', spec='yield whose value is discarded'),
    'f-esc-eq': dict(pattern=r'\bESC == char\b', replace=r'str_eq(&char, ESC)', spec='r == (a@ == b@)'),
    'f-str-eq': dict(pattern=r'\b(char|code|accu) == ("[^"]*"|[A-Z][A-Z0-9_]*)', replace=r'str_eq(&\1, \2)', spec='r == (a@ == b@)'),
    'f-listener': dict(pattern=r'listener\.lock\(\)\.unwrap\(\)\.', replace=r'listener.', spec='Arc<Mutex<T>> used single-threaded: lock().unwrap() is the listener itself (poisoning only after a panic)'),
    'f-utf8': dict(pattern=r'parser_state_cloned\.lock\(\)\.unwrap\(\)\.use_utf8', replace=r'parser_state_cloned.use_utf8', spec='shared flag, ASSUMED constant during a trace'),
    'f-lit-contains': dict(pattern=r'("[^"]*")\.contains\(&(char|code)\)', replace=r'lit_contains(\1, &\2)', spec='r == lit@.contains(s@[0])'),
    'f-arr-any': dict(pattern=r'\b(BASIC|ALLOWED_IN_CSI)\.iter\(\)\.any\(\|cf\| \*cf == char\)', replace=r'strs_any_eq(\1, &char)', spec='membership in a table of strings'),
    'f-osc-term': dict(pattern=r'OSC_TERMINATORS\.contains\(&accu\.as_str\(\)\)', replace=r'strs_any_eq(OSC_TERMINATORS, &accu)', spec='membership in a table of strings'),
    'f-first-digit': dict(pattern=r'char\.chars\(\)\.next\(\)\.unwrap\(\)\.is_ascii_digit\(\)', replace=r'first_is_digit(&char)', spec='r == is_digit(s@[0])'),
    'f-push-first': dict(pattern=r'current\.push\(char\.chars\(\)\.next\(\)\.unwrap\(\)\);', replace=r'string_push(&mut current, first_char(&char));', spec="current' == current.push(char@[0])"),
    'f-parse': dict(pattern=r'current\.parse::<u64>\(\)', replace=r'parse_u64(&current)', spec='Ok(v) iff non-empty digits with value < 2^64'),
    'f-is-empty': dict(pattern=r'current\.is_empty\(\)', replace=r'string_is_empty(&current)', spec='r == (len == 0)'),
    'f-slice': dict(pattern=r'&params\[\.\.\]', replace=r'vec_as_slice(&params)', spec='r@ == v@'),
    'f-skip1': dict(pattern=r'param\.chars\(\)\.skip\(1\)\.collect\(\)', replace=r'string_skip1(&param)', spec='drop the first character'),
    'f-pushstr': dict(pattern=r'param\.push_str\(&accu\);', replace=r'string_push_str(&mut param, &accu);', spec="param' == param + accu"),
    'f-remove0': dict(pattern=r'\b(char|code|accu|param|current)\.remove\(0\)', replace=r'string_remove0(&mut \1)', spec='String::remove(0): requires a non-empty string (panics otherwise); removes and returns the first character'),
    'f-println': dict(pattern=r'println!\("[^"]*"\);', replace=r'{ /* println! dropped */ }', spec='diagnostic output only'),
    'char-to-string-d': dict(pattern=r'(?<!&)\bchar\.to_string\(\)', replace=r'char_to_string(char)', spec='r@ == [c]'),
    'empty-to-string': dict(pattern=r'""\.to_string\(\)', replace=r'str_to_string("")', spec='r@ == s@'),
    # ByteParser::feed
    'use-utf8': dict(pattern=r'self\.parser\.parser_state\.lock\(\)\.unwrap\(\)\.use_utf8', replace=r'self.shim_use_utf8()', spec='r == use_utf8_of(parser) (abstract flag)'),
    'decode-chunk': dict(pattern=r'let mut decoded = String::with_capacity\(.*?\);\s*let \(_result, _read, _had_errors\) =\s*self\.utf8_decoder\s*\.decode_to_string\(data, &mut decoded, false\);\s*decoded',
                         replace=r'self.shim_decode_chunk(data)', spec='r@ == dec_out(dec, data), dec\' == dec_next(dec, data) (ASSUMED streaming contract of encoding_rs)'),
    # `|&b| b as char`: Verus supports only variable parameters in closures; bind the reference and dereference it (Rust pattern semantics, u8 is Copy)
    'closure-deref-b': dict(pattern=r'\|&b\| b as char', replace=r'|b__r: &u8| -> (r: char) ensures r == *b__r as char { let b = *b__r; b as char }', spec='Rust pattern semantics; the body `b as char` is verified'),
    'bytes-map-open': dict(pattern=r'\bdata\.iter\(\)\.map\((?=\|&b\|)', replace=r'bytes_map_collect(data, ', spec='elementwise map, see bytes_map_collect'),
    'bytes-map-close': dict(pattern=r'\)\.collect::<String>\(\)(?=\s*\})', replace=r')', spec='(closing half)'),
    'char-to-string': dict(pattern=r'\bc\.to_string\(\)', replace=r'char_to_string(c)', spec='r@ == [c] (vstd specifies ToString::to_string generically, without content)'),
    # Parser::feed: the three things it does with a character, called out to assumed deterministic steps
    'is-special-start': dict(pattern=r'Self::is_special_start\(&(\w+)\)', replace=r'Self::shim_is_special_start(&\1)', spec='r == is_special(c) (uninterpreted)'),
    'listener-draw': dict(pattern=r'self\.listener\.lock\(\)\.unwrap\(\)\.draw\(&(\w+)\);', replace=r'self.shim_listener_draw(&\1);', spec="world' == w_draw(world, c)"),
    'fsm-send': dict(pattern=r'self\.parser_fsm\.send\((\w+)\)\.unwrap_or\(false\)', replace=r'self.shim_fsm_send(\1)', spec="(world', r) == w_send(world, c)"),
    # draw(): data.chars().map(CLOSURE).collect::<String>()  -> str_map_collect(data, CLOSURE); closure stays in verified text
    'str-map-open': dict(pattern=r'\bdata\s*\.chars\(\)\s*\.map\((?=\|c\|)', replace=r'str_map_collect(data, ', spec='elementwise map over the characters, see str_map_collect'),
    'str-map-close': dict(pattern=r'\)\s*\.collect::<String>\(\)(?=;)', replace=r')', spec='(closing half of str-map)'),
    # last.data.nfc().collect::<String>() + &char.to_string()
    'nfc-append': dict(pattern=r'last\.data\.nfc\(\)\.collect::<String>\(\) \+ &char\.to_string\(\)', replace=r'nfc_append(&last.data, char)', spec='r@ == nfc(s@) + [c] (nfc uninterpreted)'),
    # type ascription only (rustc re-checks it): the woven invariants mention `result@[i]@` before inference has fixed the element type
    'vec-new-string': dict(pattern=r'let mut result = Vec::new\(\);', replace=r'let mut result: Vec<String> = Vec::new();', spec='type ascription; no spec'),
    # display(): is the first character of the cell text double-width?
    'first-char-wide': dict(pattern=r'\bchar\s*\.chars\(\)\s*\.next\(\)\s*\.and_then\(\|c\| c\.width\(\)\)\s*\.is_some_and\(\|s\| s == 2\)', replace=r'first_char_is_wide(&char)',
                            spec='r == (text non-empty && char_width(text[0]) == Some(2))'),
    'push-str': dict(pattern=r'\bresult\.push_str\(&char\);', replace=r'string_push_str(&mut result, &char);', spec="result' == result + s"),
    # lazy_static tables: the deref+clone is called out; the table *contents* are proved on the Kani side (C20 / mode constants)
    'default-mode-clone': dict(pattern=r'_DEFAULT_MODE\.clone\(\)', replace=r'default_mode_clone()', spec='r@ == {DECAWM, DECTCEM}'),
    'lat1-clone': dict(pattern=r'LAT1_MAP\.clone\(\)', replace=r'lat1_map_clone()', spec='r == lat1_map() (uninterpreted table; contents proved by Kani)'),
    'vt100-clone': dict(pattern=r'VT100_MAP\.clone\(\)', replace=r'vt100_map_clone()', spec='r == vt100_map() (uninterpreted table; contents proved by Kani)'),
    # self.tabstops.extend((8..self.columns).step_by(8))
    'hs-extend-step8': dict(pattern=r'self\.tabstops\.extend\(\(8\.\.([^()]+?)\)\.step_by\(8\)\);', replace=r'hs_extend_step8(&mut self.tabstops, \1);',
                            spec="S' = S u {8k : 8 <= 8k < n}"),
    # tab(): `let mut vec: Vec<_> = S.iter().collect(); vec.sort();`  -> call-out returning the sorted references
    'collect-sort': dict(pattern=r'let mut vec: Vec<_> = self\.tabstops\.iter\(\)\.collect\(\);\s*(?://[^\n]*\n\s*)*vec\.sort\(\);',
                         replace=r'let mut vec: Vec<&u32> = sorted_refs(&self.tabstops);', spec='r strictly ascending; elements of r == elements of S'),
    # `for &stop in vec.iter() {`: Verus rejects reference patterns in for; bind the reference and dereference it (same meaning for Copy types; rustc re-checks types)
    'for-deref-pat-a': dict(pattern=r'(?<=for )&stop(?= in vec\.iter\(\))', replace=r'stop__r', spec='Rust pattern semantics'),
    'for-deref-pat-b': dict(pattern=r'(?<=for &stop in vec\.iter\(\) \{)', replace=r' let stop = *stop__r;', spec='Rust pattern semantics'),
    # Verus: "does not yet support destructuring assignment".  (A, B) = (c, d) with c, d plain locals == A = c; B = d;
    'split-tuple-assign': dict(pattern=r'\(self\.lines, self\.columns\) = \(lines, columns\);', replace=r'self.lines = lines; self.columns = columns;',
                               spec='Rust semantics of destructuring assignment with local right-hand sides'),
    # Verus panics ("mk_range &u32") on a shift whose left operand is a reference; std forwards `&u32 << i32` to `u32 << i32`
    'deref-shl': dict(pattern=r'(?<=\|m\| )m << 5', replace=r'*m << 5', spec='std: <&u32 as Shl<i32>>::shl(m, n) == *m << n (forward_ref_binop)'),
    'vec-from-slice': dict(pattern=r'Vec::from\((\w+)\)', replace=r'vec_from_slice(\1)', spec='r@ == s@'),
    # modes.iter().map(CLOSURE).collect::<Vec<_>>()  -> slice_map_collect(modes, CLOSURE); the closure text is untouched (and annotated by @closure)
    'map-collect-open': dict(pattern=r'\b(\w+)\.iter\(\)\.map\((?=\|m\|)', replace=r'slice_map_collect(\1, ', spec='elementwise map, see slice_map_collect'),
    'map-collect-close': dict(pattern=r'\)\.collect::<Vec<_>>\(\)', replace=r')', spec='(closing half of map-collect)'),
    'vec-any-eq': dict(pattern=r'\b(\w+)\.iter\(\)\.any\(\|m\| \*m == (\w+)\)', replace=r'vec_any_eq(&\1, \2)', spec='r == v@.contains(k)'),
    'hs-extend-vec': dict(pattern=r'\b(self\.\w+)\.extend\((\w+)\.iter\(\)\);', replace=r'hs_extend_vec(&mut \1, &\2);', spec="S' = S u set(v)"),
    'hs-minus-vec': dict(pattern=r'self\s*\.mode\s*\.iter\(\)\s*\.filter\(\|&&x\| !(\w+)\.iter\(\)\.any\(\|&y\| x == y\)\)\s*\.cloned\(\)\s*\.collect\(\)', replace=r'hs_minus_vec(&self.mode, &\1)', spec="r = S \\ set(v)"),
    'buffer-set-reverse': dict(pattern=r'for line in self\.buffer\.values_mut\(\) \{\s*(?://[^\n]*\n\s*)*for x in line\.iter_mut\(\) \{\s*x\.1\.reverse = (true|false);\s*\}\s*\}', replace=r'buffer_set_reverse(&mut self.buffer, \1);', spec='every stored cell: reverse := R, nothing else'),
    # the same double loop written over iter_mut() pairs with the row marked dirty inside it (marks only STORED rows)
    'buffer-set-reverse-mark': dict(pattern=r'for \(y, line\) in self\.buffer\.iter_mut\(\) \{\s*self\.dirty\.insert\(\*y\);\s*(?://[^\n]*\n\s*)*for x in line\.iter_mut\(\) \{\s*x\.1\.reverse = (true|false);\s*\}\s*\}', replace=r'buffer_set_reverse_mark(&mut self.buffer, &mut self.dirty, \1);', spec='every stored cell: reverse := R; dirty := dirty u {stored rows}'),
    'buffer-remove-columns': dict(pattern=r'for line in self\.buffer\.values_mut\(\) \{\s*for x in ([^{}.]+(?:\.\w+)*?)\.\.([^{}]+?) \{\s*line\.remove\(&x\);\s*\}\s*\}', replace=r'buffer_remove_columns(&mut self.buffer, \1, \2);', spec='every stored row: keys lo..hi removed, nothing else'),
    # HashSet<u32>::extend(range)  ->  call-out with spec  S' = S u [a,b)
    'hs-extend-range': dict(pattern=r'\b(self\.dirty)\.extend\(((?:[^();]|\([^()]*\))*)\);', replace=r'hs_extend_range(&mut \1, \2);',
                            spec="forall v: S'.contains(v) == (S.contains(v) || a <= v < b)"),
    # Box<dyn Iterator<Item = u32>> holding only Range<u32> values -> the Range itself.
    # Sound iff every boxed expression is a Range<u32>; rustc re-checks that on the woven text
    # (a non-Range arm makes the woven file fail to compile -> exit 2, never an alarm).
    'unbox-range-type': dict(pattern=r'Box<dyn Iterator<Item = u32>>', replace=r'std::ops::Range<u32>',
                             spec='type-checked rewrite; no spec'),
    'unbox-range-new': dict(pattern=r'Box::new\(((?:[^()]|\((?:[^()]|\([^()]*\))*\))*)\)', replace=r'\1',
                            spec='type-checked rewrite; no spec'),
    # ---- unit sgr (C08): select_graphic_rendition / CharOpts::to_map ----
    'sgr-put': dict(pattern=r'\breplace\.insert\(', replace=r'sgr_put(&mut replace, ', spec='VERIFIED wrapper around HashMap<String,String>::insert, stated by key text (mget)'),
    'map-put': dict(pattern=r'\bmap\.insert\(', replace=r'sgr_put(&mut map, ', spec='VERIFIED wrapper around HashMap<String,String>::insert, stated by key text (mget)'),
    'sgr-extend': dict(pattern=r'\breplace\.extend\(', replace=r'sgr_extend(&mut replace, ', spec="HashMap::extend(other map): M' == M.union_prefer_right(O)"),
    'sgr-tbl-has': dict(pattern=r'\b(FG_ANSI|BG_ANSI|TEXT|FG_AIXTERM|BG_AIXTERM)\.contains_key\(&(\w+)\)', replace=r'tblhas_\1(\2)', spec='membership in the documented table (contents: unit graphics / assumed)'),
    'sgr-tbl-get': dict(pattern=r'\b(FG_ANSI|BG_ANSI|FG_AIXTERM|BG_AIXTERM)\[&(\w+)\]\.clone\(\)', replace=r'tblget_\1(\2)', spec='the documented table entry (requires membership: Index panics otherwise)'),
    'sgr-text-ref': dict(pattern=r'&TEXT\[&(\w+)\]', replace=r'tblref_TEXT(\1)', spec='the documented TEXT entry (requires membership)'),
    'str-tail': dict(pattern=r'\b(\w+)\[1\.\.\]\.to_string\(\)', replace=r'str_tail_to_string(\1)', spec='requires a one-byte first character; r@ == s@.subrange(1, len)'),
    'starts-with-to-string': dict(pattern=r"\b(\w+)\.starts_with\(('.')\)\.to_string\(\)", replace=r'starts_with_char_to_string(\1, \2)', spec='r@ == "true"/"false" according to the first character'),
    'palette-get': dict(pattern=r'\bFG_BG_256\[(\w+(?: as usize)?)\]\.clone\(\)', replace=r'palette_get(\1)', spec='requires index < 256; r@ == palette(index) (table contents assumed)'),
    'palette-len': dict(pattern=r'\bFG_BG_256\.len\(\)', replace=r'palette_len()', spec='r == 256'),
    'fmt-hex6': dict(pattern=r'format!\(("[^"]*"), (\w+), (\w+), (\w+)\)', replace=r'fmt_hex6(\1, \2, \3, \4)', spec='for the format string "{:02x}{:02x}{:02x}" and components <= 255: hex6(r, g, b)'),
    'bool-to-string': dict(pattern=r'\bself\.(bold|italics|underscore|strikethrough|reverse|blink)\.to_string\(\)', replace=r'bool_to_string(self.\1)', spec='r@ == "true" / "false"'),
    'rgb-vec-to-hex': dict(pattern=r'\bfg_bg_256\.iter\(\)\s*\.map\(\|&\(r, g, b\)\| format!\(("[^"]*"), r, g, b\)\)\s*\.collect\(\)', replace=r'rgb_vec_to_hex(\1, &fg_bg_256)', spec='elementwise format!("{:02x}{:02x}{:02x}") of the (r,g,b) triples: hex6 for components in 0..=255'),
    'charset-const': dict(pattern=r'\b(LAT1_MAP|VT100_MAP|IBMPC_MAP|VAX42_MAP)\b', replace=r'const_\1()', spec='the constant table as an abstract value (contents: Kani harness charset_tables_match_reference)'),
    # `for &K in TABLE {` over a reference to an array/slice: bind the reference and dereference it (IntoIterator for &[T; N] is slice::iter; rustc re-checks types)
    'for-deref-key-a': dict(pattern=r'(?<=for )&key(?= in BASIC \{)', replace=r'key__r', spec='Rust pattern semantics'),
    'for-deref-key-b': dict(pattern=r'(?<=for &key in BASIC)(?= \{)', replace=r'.iter()', spec='<&[T; N] as IntoIterator>::into_iter is <[T]>::iter'),
    'for-deref-key-c': dict(pattern=r'(?<=for &key in BASIC \{)', replace=r' let key = *key__r;', spec='Rust pattern semantics'),
    # Parser::is_special_start: the scan of the lazy_static SPECIAL set (membership PROVED on the initialiser block, unit parser)
    'special-any-prefix': dict(pattern=r'SPECIAL\.iter\(\)\.any\(\|special\| s\.starts_with\(special\)\)', replace=r'special_any_prefix(s)', spec='r == (some element of the SPECIAL table is a prefix of s); trusted: lazy_static deref, HashSet::iter visits every element, str::starts_with'),
    # String::from_utf8_lossy(B).into_owned() / .to_string(): lossy UTF-8 decoding of a whole slice (no state): an uninterpreted function, equal to the byte-to-char map for all-ASCII input
    'utf8-lossy-owned': dict(pattern=r'String::from_utf8_lossy\((\w+)\)\s*\.(?:into_owned|to_string)\(\)', replace=r'from_utf8_lossy_owned(\1)', spec='r@ == utf8_lossy(b@); for all-ASCII b the byte-to-char map'),
    # CharOpts::update_from_map
    'hm-into-pairs': dict(pattern=r'(?<=for \(key, value\) in )map(?= \{)', replace=r'pairs__it: hm_into_pairs(map)', spec='HashMap::into_iter by value yields every entry exactly once (some order)'),
    'parse-bool': dict(pattern=r'\bvalue\.parse\(\)\.unwrap_or\(false\)', replace=r'parse_bool_or_false(&value)', spec='str::parse::<bool>: exactly "true" gives true, anything else false'),
}
