"""Registered expression-level call-out shims (DESIGN.md 3.3).
pattern: Python regex matched inside the function body text (DOTALL);
replace: replacement template (re.expand syntax) -- a call to a shim fn defined in a prelude,
or a type-checked structural rewrite.
Every instance is recorded in the woven file (original text base64 in the marker) and
listed in the evidence."""
SHIMS = {
    # HashSet<u32>::extend(range)  ->  call-out with spec  S' = S u [a,b)
    'hs-extend-range': dict(pattern=r'\b(self\.\w+)\.extend\(((?:[^();]|\([^()]*\))*)\);', replace=r'hs_extend_range(&mut \1, \2);',
                            spec="forall v: S'.contains(v) == (S.contains(v) || a <= v < b)"),
    # Box<dyn Iterator<Item = u32>> holding only Range<u32> values -> the Range itself.
    # Sound iff every boxed expression is a Range<u32>; rustc re-checks that on the woven text
    # (a non-Range arm makes the woven file fail to compile -> exit 2, never an alarm).
    'unbox-range-type': dict(pattern=r'Box<dyn Iterator<Item = u32>>', replace=r'std::ops::Range<u32>',
                             spec='type-checked rewrite; no spec'),
    'unbox-range-new': dict(pattern=r'Box::new\(((?:[^()]|\((?:[^()]|\([^()]*\))*\))*)\)', replace=r'\1',
                            spec='type-checked rewrite; no spec'),
}
