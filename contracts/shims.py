"""Registered expression-level call-out shims (DESIGN.md 3.3).
pattern: Python regex matched inside the function body text (DOTALL);
replace: replacement template (re.expand syntax) -- a call to a shim fn defined in a prelude.
Every instance is recorded in the woven file (original text base64 in the marker) and
listed in the evidence."""
SHIMS = {}
