// ===========================================================================
// prelude_parser.rs -- environment of Parser::feed / ByteParser::feed for single-file Verus.
// The dependencies (generator-rs coroutine, Arc<Mutex<listener>>, encoding_rs) are NOT available here;
// they are represented by opaque stand-in types and ASSUMED contracts.  What is verified is memterm's own
// code: the per-character loop of Parser::feed and the byte/character plumbing of ByteParser::feed.
// ===========================================================================
use std::sync::{Arc, Mutex};
use vstd::std_specs::iter::IteratorSpec;

/// stand-in for generator::Generator (external crate): an opaque resumable coroutine
#[verifier::external_body]
#[verifier::reject_recursive_types(A)]
#[verifier::reject_recursive_types(B)]
pub struct Generator<'a, A, B> { _p: std::marker::PhantomData<&'a (A, B)> }

/// stand-in for the listener trait (only what Parser::feed itself calls)
pub trait ParserListener { }

#[verifier::external_type_specification] #[verifier::external_body] #[verifier::reject_recursive_types(T)] pub struct ExMutex<T: ?Sized>(Mutex<T>);
#[verifier::external_type_specification] pub struct ExParserState(ParserState);
#[verifier::external_type_specification] #[verifier::reject_recursive_types(T)] pub struct ExParser<'a, T: ParserListener + Send>(Parser<'a, T>);

/// Everything a Parser can reach besides its own `taking_plain_text` flag: the suspended coroutine (its position
/// inside an escape sequence and its locals) and the shared listener.  As a ghost record:
///   consumed = every character the coroutine has been sent so far (its position is `run(consumed).0`),
///   log      = every event the listener has received so far (from the coroutine AND from feed()'s fast path),
///   utf8     = the shared `use_utf8` flag the coroutine reads (ASSUMED constant while a sequence is in flight).
pub struct World { pub consumed: Seq<char>, pub log: Seq<Ev>, pub utf8: bool }
pub uninterp spec fn world_parts<'a, T: ParserListener + Send + 'a>(fsm: Generator<'a, String, Option<bool>>, st: Arc<Mutex<ParserState>>, l: Arc<Mutex<T>>) -> World;
/// a function of every field except `taking_plain_text`
pub open spec fn world_of<'a, T: ParserListener + Send + 'a>(p: Parser<'a, T>) -> World { world_parts(p.parser_fsm, p.parser_state, p.listener) }

/// the documented SPECIAL set (C03): ESC, the 8-bit CSI and OSC introducers and the C0 controls BEL BS HT LF VT FF CR SO SI.
/// (`Parser::is_special_start` and the `SPECIAL` table are proved against this, see parser.spec.)
pub open spec fn is_special(c: char) -> bool { c as u32 == 0x1b || c as u32 == 0x9b || c as u32 == 0x9d || is_basic(c) }
/// the world of a newly created parser
pub open spec fn world0(utf8: bool) -> World { World { consumed: Seq::<char>::empty(), log: Seq::<Ev>::empty(), utf8: utf8 } }
/// position of the suspended coroutine in the grammar
pub open spec fn wstate(w: World) -> St { run(w.consumed, w.utf8).0 }

// The two things feed() does with a character, as functions of the world.
// w_draw: the listener receives draw(c).
// w_send: THE LINK BETWEEN UNITS `parser` AND `fsm` (ASSUMED: generator-rs resumes the closure where it yielded and runs it to
// its next yield).  Unit `fsm` proves of the closure text that between two yields it consumes exactly the character sent,
// emits exactly `step(state, c).1` and yields Some(true) exactly when the new state is Ground (co_next's pre/postconditions);
// this definition says that that is what `parser_fsm.send(c)` does.
pub open spec fn w_draw(w: World, c: char) -> World { World { consumed: w.consumed, log: w.log.push(Ev::Draw { c: c }), utf8: w.utf8 } }
pub open spec fn w_send(w: World, c: char) -> (World, bool) {
    let s = step(wstate(w), c, w.utf8);
    (World { consumed: w.consumed.push(c), log: w.log + s.1, utf8: w.utf8 }, s.0 is Ground)
}

/// observable parser state: (world, taking_plain_text)
pub open spec fn pstep(s: (World, bool), c: char) -> (World, bool) {
    let t1 = s.1 && !is_special(c);
    if t1 { (w_draw(s.0, c), true) } else { w_send(s.0, c) }
}
pub open spec fn pfold(s: (World, bool), data: Seq<char>) -> (World, bool)
    decreases data.len(),
{
    if data.len() == 0 { s } else { pfold(pstep(s, data[0]), data.drop_first()) }
}
pub open spec fn pview<'a, T: ParserListener + Send + 'a>(p: Parser<'a, T>) -> (World, bool) { (world_of(p), p.taking_plain_text) }

/// feeding a then b is feeding a + b  (chunking independence of character input, C02)
pub proof fn lemma_pfold_concat(s: (World, bool), a: Seq<char>, b: Seq<char>) //#lemma: C02
    ensures pfold(pfold(s, a), b) == pfold(s, a + b),
    decreases a.len(),
{
    if a.len() == 0 {
        assert(a + b =~= b);
    } else {
        lemma_pfold_concat(pstep(s, a[0]), a.drop_first(), b);
        assert((a + b).drop_first() =~= a.drop_first() + b);
        assert((a + b)[0] == a[0]);
    }
}
/// appending one character at the end of what has been folded
pub proof fn lemma_pfold_push(s: (World, bool), a: Seq<char>, c: char) //#lemma: C02
    ensures pfold(s, a.push(c)) == pstep(pfold(s, a), c),
{
    lemma_pfold_concat(s, a, seq![c]);
    assert(a.push(c) =~= a + seq![c]);
    assert(seq![c].drop_first() =~= Seq::<char>::empty());
    assert(pfold(pfold(s, a), seq![c]) == pstep(pfold(s, a), c)) by {
        let s1 = pfold(s, a);
        assert(seq![c].len() == 1);
        assert(pfold(pstep(s1, seq![c][0]), seq![c].drop_first()) == pstep(s1, c));
    }
}
/// an empty chunk is a no-op
pub proof fn lemma_pfold_empty(s: (World, bool)) //#lemma: C02
    ensures pfold(s, Seq::<char>::empty()) == s,
{
}

// ---- composition of Parser::feed with the recogniser (C03/C19): the events of feed(data) are the documented grammar's ----
/// one character of the documented grammar as seen from feed(): in the ground state a non-special character is text;
/// everything else is the recogniser's `step`
pub open spec fn gstep(st: St, c: char, utf8: bool) -> (St, Seq<Ev>) {
    if st is Ground && !is_special(c) { (St::Ground, seq![Ev::Draw { c: c }]) } else { step(st, c, utf8) }
}
pub open spec fn gfold(st: St, data: Seq<char>, utf8: bool) -> (St, Seq<Ev>)
    decreases data.len(),
{
    if data.len() == 0 { (st, Seq::<Ev>::empty()) }
    else {
        let a = gstep(st, data[0], utf8);
        let b = gfold(a.0, data.drop_first(), utf8);
        (b.0, a.1 + b.1)
    }
}
/// Parser::feed's fold (what unit `parser` proves feed() computes) emits exactly the grammar's events, keeps the
/// coroutine at the grammar's state and keeps `taking_plain_text == (state is Ground)` -- from any world in which the
/// flag is right, for data of any length.
pub proof fn lemma_feed_grammar(w: World, flag: bool, data: Seq<char>) //#lemma: C03 C19
    requires flag == (wstate(w) is Ground),
    ensures ({
        let r = pfold((w, flag), data);
        let g = gfold(wstate(w), data, w.utf8);
        r.0.log =~= w.log + g.1 && wstate(r.0) == g.0 && r.1 == (g.0 is Ground) && r.0.utf8 == w.utf8
    }),
    decreases data.len(),
{
    if data.len() == 0 {
        assert(w.log + Seq::<Ev>::empty() =~= w.log);
    } else {
        let c = data[0];
        let s1 = pstep((w, flag), c);
        let a = gstep(wstate(w), c, w.utf8);
        if flag && !is_special(c) {
            assert(s1.0.consumed == w.consumed);
            assert(s1.0.log =~= w.log + a.1);
        } else {
            lemma_run_push(w.consumed, c, w.utf8);
            assert(a == step(wstate(w), c, w.utf8));
        }
        assert(wstate(s1.0) == a.0);
        assert(s1.1 == (a.0 is Ground));
        lemma_feed_grammar(s1.0, s1.1, data.drop_first());
        let b = gfold(a.0, data.drop_first(), w.utf8);
        assert((w.log + a.1) + b.1 =~= w.log + (a.1 + b.1));
    }
}
/// from a newly created parser (nothing consumed, nothing emitted, taking_plain_text == true)
pub proof fn lemma_feed_from_start(data: Seq<char>, utf8: bool) //#lemma: C03 C19
    ensures ({
        let w0 = World { consumed: Seq::<char>::empty(), log: Seq::<Ev>::empty(), utf8: utf8 };
        let r = pfold((w0, true), data);
        r.0.log =~= gfold(St::Ground, data, utf8).1 && r.1 == (gfold(St::Ground, data, utf8).0 is Ground)
    }),
{
    let w0 = World { consumed: Seq::<char>::empty(), log: Seq::<Ev>::empty(), utf8: utf8 };
    lemma_feed_grammar(w0, true, data);
    assert(w0.log + gfold(St::Ground, data, utf8).1 =~= gfold(St::Ground, data, utf8).1);
}
/// sanity of the grammar (C03: "every character outside a control sequence is delivered as text exactly once and in order"):
/// text without special characters is drawn character by character and leaves the recogniser in its ground state
pub proof fn lemma_plain_text(data: Seq<char>, utf8: bool) //#lemma: C03
    requires forall|i: int| 0 <= i < data.len() ==> !is_special(#[trigger] data[i]),
    ensures
        gfold(St::Ground, data, utf8).0 is Ground,
        gfold(St::Ground, data, utf8).1 =~= Seq::new(data.len(), |i: int| Ev::Draw { c: data[i] }),
    decreases data.len(),
{
    if data.len() > 0 {
        lemma_plain_text(data.drop_first(), utf8);
    }
}
/// the recogniser's position never depends on the use_utf8 flag (only what it emits does)
pub proof fn lemma_state_indep_utf8(inp: Seq<char>, a: bool, b: bool) //#lemma: C03
    ensures run(inp, a).0 == run(inp, b).0,
    decreases inp.len(),
{
    if inp.len() > 0 { lemma_state_indep_utf8(inp.drop_last(), a, b); }
}

// ---- TRUSTED call-out shims (bodies are the original expressions) -------------------------------------
impl<'a, T> Parser<'a, T> where T: ParserListener + Send + 'a {
    /// Parser::new is NOT under contract (its body is the coroutine constructor): ASSUMED to return a parser whose coroutine has
    /// consumed nothing, whose listener has received nothing, in UTF-8 mode, taking plain text
    #[verifier::external_body]
    pub fn new(listener: Arc<Mutex<T>>) -> (r: Self)
        ensures pview(r) == (world0(true), true), use_utf8_of(r),
    { unimplemented!() }

    /// Parser::set_use_utf8 (`self.parser_state.lock().unwrap().use_utf8 = B`): ASSUMED effect on the shared flag
    #[verifier::external_body]
    pub fn set_use_utf8(&mut self, use_utf8: bool)
        ensures
            use_utf8_of(*final(self)) == use_utf8,
            final(self).taking_plain_text == old(self).taking_plain_text,
    { unimplemented!() }

    /// `self.listener.lock().unwrap().draw(&S)`
    #[verifier::external_body]
    pub fn shim_listener_draw(&mut self, s: &String)
        requires s@.len() == 1,
        ensures
            world_of(*final(self)) == w_draw(world_of(*old(self)), s@[0]),
            final(self).taking_plain_text == old(self).taking_plain_text,
            final(self).parser_state == old(self).parser_state,
    { unimplemented!() }

    /// `self.parser_fsm.send(S).unwrap_or(false)`
    #[verifier::external_body]
    pub fn shim_fsm_send(&mut self, s: String) -> (r: bool)
        requires s@.len() == 1,
        ensures
            (world_of(*final(self)), r) == w_send(world_of(*old(self)), s@[0]),
            final(self).taking_plain_text == old(self).taking_plain_text,
            final(self).parser_state == old(self).parser_state,
    { unimplemented!() }
}

/// `C.to_string()` for a char C
#[verifier::external_body]
pub fn char_to_string(c: char) -> (r: String)
    ensures r@ == seq![c],
{
    c.to_string()
}

// ---- ByteParser (C11 / C02 byte half) -------------------------------------------------------------
/// stand-in for encoding_rs (external crate): an opaque streaming decoder with the ASSUMED contracts of the three
/// methods ByteParser::feed uses
pub mod encoding_rs {
    use vstd::prelude::*;
    #[verifier::external_body]
    pub struct Decoder { _p: () }
    pub enum CoderResult { InputEmpty, OutputFull }
    /// stand-in for encoding_rs::Encoding / the UTF_8 static
    pub struct Encoding { pub _p: () }
}
pub const UTF_8: encoding_rs::Encoding = encoding_rs::Encoding { _p: () };
/// the state of a freshly created decoder (no pending bytes)
pub uninterp spec fn dec_fresh() -> DecState;
/// the state of a freshly created decoder that still looks for a byte order mark (it swallows a leading EF BB BF)
pub uninterp spec fn dec_fresh_bom() -> DecState;
impl encoding_rs::Encoding {
    #[verifier::external_body]
    pub fn new_decoder_with_bom_removal(&self) -> (r: encoding_rs::Decoder)
        ensures dec_of(r) == dec_fresh_bom(), !dec_finished(r),
    { unimplemented!() }
    #[verifier::external_body]
    pub fn new_decoder_without_bom_handling(&self) -> (r: encoding_rs::Decoder)
        ensures dec_of(r) == dec_fresh(), !dec_finished(r),
    { unimplemented!() }
}
/// worst-case number of UTF-8 bytes produced for n input bytes (every ill-formed byte becomes a 3-byte U+FFFD)
pub uninterp spec fn dec_need(n: int) -> int;

// (String::with_capacity: see prelude_stdx.rs)

impl encoding_rs::Decoder {
    /// ASSUMED (encoding_rs docs): a buffer of this many bytes always suffices for `byte_length` input bytes
    #[verifier::external_body]
    pub fn max_utf8_buffer_length(&self, byte_length: usize) -> (r: Option<usize>)
        ensures
            match r { Some(v) => v >= dec_need(byte_length as int), None => byte_length > usize::MAX / 4 },
    { unimplemented!() }

    /// ASSUMED: sufficient only if no replacement happens -- no guarantee with respect to dec_need
    #[verifier::external_body]
    pub fn max_utf8_buffer_length_without_replacement(&self, byte_length: usize) -> (r: Option<usize>)
    { unimplemented!() }

    /// ASSUMED (encoding_rs docs): with last == false and enough free capacity the whole input is consumed; the appended text and the
    /// new decoder state are functions of (decoder state, input).  With too little capacity nothing is promised.
    #[verifier::external_body]
    pub fn decode_to_string(&mut self, src: &[u8], dst: &mut String, last: bool) -> (r: (encoding_rs::CoderResult, usize, bool))
        requires
            !dec_finished(*old(self)),   // encoding_rs panics: "Must not use a decoder that has finished."
        ensures
            !last ==> !dec_finished(*final(self)),   // a call with last == true may finish the decoder
            !last && string_capacity(*old(dst)) - old(dst)@.len() >= dec_need(src@.len() as int) ==>
                final(dst)@ == old(dst)@ + dec_out(dec_of(*old(self)), src@) && dec_of(*final(self)) == dec_next(dec_of(*old(self)), src@),
    { unimplemented!() }
}
#[verifier::external_type_specification] #[verifier::reject_recursive_types(T)] pub struct ExByteParser<'a, T: ParserListener + Send + 'a>(ByteParser<'a, T>);

/// abstract state of the streaming decoder (pending incomplete sequence, BOM state)
pub struct DecState { pub id: int }
pub uninterp spec fn dec_of(d: encoding_rs::Decoder) -> DecState;
/// the decoder has been told that its input ended (`last == true`): any further use panics
pub uninterp spec fn dec_finished(d: encoding_rs::Decoder) -> bool;
/// ASSUMED: 3 bytes per input byte plus slack always suffice (U+FFFD is 3 bytes)
#[verifier::external_body]
pub proof fn axiom_dec_need(n: int)
    ensures dec_need(n) <= 3 * n + 16,
{
}
/// ASSUMED contract of encoding_rs: decode_to_string(src, dst, last=false) with a large enough buffer is a
/// deterministic streaming step: it appends to dst a string that depends only on (decoder state, src) and
/// leaves a state that depends only on (decoder state, src); and it is a *streaming* decoder:
/// decoding a then b equals decoding a + b (lemma_dec_stream, an axiom).
pub uninterp spec fn dec_out(s: DecState, bytes: Seq<u8>) -> Seq<char>;
pub uninterp spec fn dec_next(s: DecState, bytes: Seq<u8>) -> DecState;
#[verifier::external_body]
pub proof fn axiom_dec_stream(s: DecState, a: Seq<u8>, b: Seq<u8>)
    ensures
        dec_out(s, a + b) == dec_out(s, a) + dec_out(dec_next(s, a), b),
        dec_next(s, a + b) == dec_next(dec_next(s, a), b),
{
}
pub uninterp spec fn utf8_flag(st: Arc<Mutex<ParserState>>) -> bool;
/// the shared use_utf8 flag (only set_use_utf8 writes it; feed() never does: the shims keep `parser_state`)
pub open spec fn use_utf8_of<'a, T: ParserListener + Send + 'a>(p: Parser<'a, T>) -> bool { utf8_flag(p.parser_state) }

/// 8-bit mode: each byte maps to the code point of equal value
pub open spec fn latin1(bytes: Seq<u8>) -> Seq<char> { Seq::new(bytes.len(), |i: int| bytes[i] as char) }

impl<'a, T> ByteParser<'a, T> where T: ParserListener + Send + 'a {
    /// `self.parser.parser_state.lock().unwrap().use_utf8`
    #[verifier::external_body]
    pub fn shim_use_utf8(&self) -> (r: bool)
        ensures r == use_utf8_of(self.parser),
    { unimplemented!() }

}
/// `data.iter().map(|&b| b as char).collect::<String>()`
#[verifier::external_body]
pub fn bytes_map_collect<F: Fn(&u8) -> char>(s: &[u8], f: F) -> (r: String)
    requires
        forall|i: int| 0 <= i < s@.len() ==> f.requires((&#[trigger] s@[i],)),
    ensures
        r@.len() == s@.len(),
        forall|i: int| 0 <= i < s@.len() ==> f.ensures((&s@[i],), #[trigger] r@[i]),
{
    s.iter().map(f).collect::<String>()
}

/// byte chunking (C02, byte half): feeding chunk a then chunk b leaves the decoder and the parser exactly where feeding a + b does
pub proof fn lemma_bytes_chunking(d: DecState, s: (World, bool), a: Seq<u8>, b: Seq<u8>) //#lemma: C02
    ensures
        dec_next(dec_next(d, a), b) == dec_next(d, a + b),
        pfold(pfold(s, dec_out(d, a)), dec_out(dec_next(d, a), b)) == pfold(s, dec_out(d, a + b)),
        pfold(pfold(s, latin1(a)), latin1(b)) == pfold(s, latin1(a + b)),
{
    axiom_dec_stream(d, a, b);
    lemma_pfold_concat(s, dec_out(d, a), dec_out(dec_next(d, a), b));
    lemma_pfold_concat(s, latin1(a), latin1(b));
    assert(latin1(a) + latin1(b) =~= latin1(a + b));
}

/// TRUSTED (std): two `&str` are equal exactly when their character sequences are (a `match` on a string literal
/// compares values, `==` compares contents; Verus relates neither to the other)
#[verifier::external_body]
pub proof fn axiom_str_ext(a: &str, b: &str)
    ensures (a@ == b@) == (a == b) {}

// ---- the SPECIAL table ---------------------------------------------------------------------------------
/// membership in the documented SPECIAL table, by character sequence
pub open spec fn special_has(s: Seq<char>) -> bool { s.len() == 1 && is_special(s[0]) }
/// TRUSTED (std): `&str` hashes and compares by content (vstd states the key model for primitive keys only)
#[verifier::external_body]
pub proof fn axiom_str_key_model()
    ensures vstd::std_specs::hash::obeys_key_model::<&'static str>() {}
/// the values of the constants the SPECIAL table is built from (extracted verbatim; ascii!(hi/lo) evaluated mechanically)
pub proof fn lemma_special_consts() //#lemma: C03 C19
    ensures
        ESC@ == seq!['\u{1b}'], CSI@ == seq!['\u{9b}'], OSC@ == seq!['\u{9d}'],
        BASIC@.len() == 9,
        BASIC@[0]@ == seq!['\u{7}'], BASIC@[1]@ == seq!['\u{8}'], BASIC@[2]@ == seq!['\u{9}'], BASIC@[3]@ == seq!['\u{a}'], BASIC@[4]@ == seq!['\u{b}'],
        BASIC@[5]@ == seq!['\u{c}'], BASIC@[6]@ == seq!['\u{d}'], BASIC@[7]@ == seq!['\u{e}'], BASIC@[8]@ == seq!['\u{f}'],
{
    reveal_strlit("\u{1b}"); reveal_strlit("\u{009B}"); reveal_strlit("\u{009D}");
    reveal_strlit("\u{7}"); reveal_strlit("\u{8}"); reveal_strlit("\u{9}"); reveal_strlit("\u{a}"); reveal_strlit("\u{b}");
    reveal_strlit("\u{c}"); reveal_strlit("\u{d}"); reveal_strlit("\u{e}"); reveal_strlit("\u{f}");
}
/// a one-character string is an element of BASIC exactly when its character is one of the nine C0 controls
pub proof fn lemma_basic_members(s: Seq<char>) //#lemma: C03 C19
    ensures (exists|j: int| 0 <= j < 9 && (#[trigger] BASIC@[j])@ == s) == (s.len() == 1 && is_basic(s[0])),
{
    lemma_special_consts();
    if s.len() == 1 && is_basic(s[0]) {
        let j = (s[0] as u32 - 7) as int;
        assert(BASIC@[j]@ =~= s);
    }
}
/// the documented SPECIAL set, element by element
pub proof fn lemma_special_has(s: Seq<char>) //#lemma: C03 C19
    ensures special_has(s) == (s == ESC@ || s == CSI@ || s == OSC@ || exists|j: int| 0 <= j < 9 && (#[trigger] BASIC@[j])@ == s),
{
    lemma_special_consts();
    lemma_basic_members(s);
    if s.len() == 1 {
        assert(s =~= seq![s[0]]);
        assert((s == ESC@) == (s[0] as u32 == 0x1b));
        assert((s == CSI@) == (s[0] as u32 == 0x9b));
        assert((s == OSC@) == (s[0] as u32 == 0x9d));
    }
}
/// `SPECIAL.iter().any(|special| s.starts_with(special))`: some element of the SPECIAL table is a prefix of s.
/// TRUSTED: a lazy_static deref yields its initialiser's value (whose members are PROVED to be special_has, fn SPECIAL),
/// HashSet::iter visits every element, str::starts_with is the prefix test.
#[verifier::external_body]
pub fn special_any_prefix(s: &str) -> (r: bool)
    ensures r == exists|k: Seq<char>| special_has(k) && #[trigger] k.is_prefix_of(s@),
{ unimplemented!() }
