// ===========================================================================
// prelude_grammar.rs -- the documented escape-sequence grammar (C03/C19) as an explicit-state recogniser:
// events, states, `step`, `run`.  Written from the property statement, independently of the code.
// Shared by unit `fsm` (the recogniser closure is proved to follow it) and unit `parser` (Parser::feed's
// per-character loop composed with it: lemma_feed_grammar).
// ===========================================================================

// ---- events the listener can receive from the recogniser ----------------------------------------
pub enum Ev {
    Align,
    DefCs { code: char, mode: char },
    Esc { fin: char },
    Basic { c: char },
    Draw { c: char },
    Csi { fin: char, params: Seq<u32>, private: bool },
    Icon { text: Seq<char> },
    Title { text: Seq<char> },
}

// ---- the documented grammar as an explicit-state recogniser ------------------------------------------
pub enum St {
    Ground,
    Esc,
    EscHash,
    EscPct,
    EscCs { mode: char },
    Csi { params: Seq<u32>, cur: Seq<char>, private: bool },
    CsiDollar,
    OscCode,
    OscStr { code: char, payload: Seq<char>, esc: bool },
}

pub open spec fn is_basic(c: char) -> bool { 7 <= c as u32 <= 15 }            // BEL BS HT LF VT FF CR SO SI
pub open spec fn allowed_in_csi(c: char) -> bool { 7 <= c as u32 <= 13 }      // BEL BS HT LF VT FF CR
pub open spec fn is_digit(c: char) -> bool { 0x30 <= c as u32 <= 0x39 }

/// decimal value of a digit string (mathematical integer: no overflow)
pub open spec fn dec_val(s: Seq<char>) -> nat
    decreases s.len(),
{
    if s.len() == 0 { 0 } else { dec_val(s.drop_last()) * 10 + ((s.last() as u32 - 0x30) as nat) }
}
/// value of a collected CSI parameter: empty = 0, saturating at 9999
pub open spec fn param_val(s: Seq<char>) -> u32 {
    if s.len() == 0 { 0 } else if dec_val(s) > 9999 { 9999 } else { dec_val(s) as u32 }
}
/// OSC completed: code 0/1 set the icon name, 0/2 the title, to the text after the first character (the `;`)
pub open spec fn osc_events(code: char, payload: Seq<char>) -> Seq<Ev> {
    let text = if payload.len() > 0 { payload.drop_first() } else { payload };
    let a = if code == '0' || code == '1' { seq![Ev::Icon { text: text }] } else { Seq::<Ev>::empty() };
    let b = if code == '0' || code == '2' { seq![Ev::Title { text: text }] } else { Seq::<Ev>::empty() };
    a + b
}

pub open spec fn step(st: St, c: char, utf8: bool) -> (St, Seq<Ev>) {
    let none = Seq::<Ev>::empty();
    match st {
        St::Ground =>
            if c as u32 == 0x1b { (St::Esc, none) }
            else if c as u32 == 0x9b { (St::Csi { params: Seq::empty(), cur: Seq::empty(), private: false }, none) }
            else if c as u32 == 0x9d { (St::OscCode, none) }
            else if is_basic(c) { if (c as u32 == 14 || c as u32 == 15) && utf8 { (St::Ground, none) } else { (St::Ground, seq![Ev::Basic { c: c }]) } }
            else { (St::Ground, none) },
        St::Esc =>
            if c == '[' { (St::Csi { params: Seq::empty(), cur: Seq::empty(), private: false }, none) }
            else if c == ']' { (St::OscCode, none) }
            else if c == '#' { (St::EscHash, none) }
            else if c == '%' { (St::EscPct, none) }
            else if c == '(' || c == ')' { (St::EscCs { mode: c }, none) }
            else { (St::Ground, seq![Ev::Esc { fin: c }]) },
        St::EscHash => if c == '8' { (St::Ground, seq![Ev::Align]) } else { (St::Ground, none) },
        St::EscPct => (St::Ground, none),
        St::EscCs { mode } => if utf8 { (St::Ground, none) } else { (St::Ground, seq![Ev::DefCs { code: c, mode: mode }]) },
        St::Csi { params, cur, private } =>
            if c == '?' { (St::Csi { params: params, cur: cur, private: true }, none) }
            else if allowed_in_csi(c) { (st, seq![Ev::Basic { c: c }]) }
            else if c == ' ' || c == '>' { (st, none) }
            else if c as u32 == 0x18 || c as u32 == 0x1a { (St::Ground, seq![Ev::Draw { c: c }]) }
            else if is_digit(c) { (St::Csi { params: params, cur: cur.push(c), private: private }, none) }
            else if c == '$' { (St::CsiDollar, none) }
            else if c == ';' { (St::Csi { params: params.push(param_val(cur)), cur: Seq::empty(), private: private }, none) }
            else { (St::Ground, seq![Ev::Csi { fin: c, params: params.push(param_val(cur)), private: private }]) },
        St::CsiDollar => (St::Ground, none),
        St::OscCode => if c == 'R' || c == 'p' { (St::Ground, none) } else { (St::OscStr { code: c, payload: Seq::empty(), esc: false }, none) },
        St::OscStr { code, payload, esc } =>
            if !esc {
                if c as u32 == 0x1b { (St::OscStr { code: code, payload: payload, esc: true }, none) }
                else if c as u32 == 7 || c as u32 == 0x9c { (St::Ground, osc_events(code, payload)) }
                else { (St::OscStr { code: code, payload: payload.push(c), esc: false }, none) }
            } else {
                if c == '\\' { (St::Ground, osc_events(code, payload)) }
                else { (St::OscStr { code: code, payload: payload.push('\u{1b}').push(c), esc: false }, none) }
            },
    }
}

/// state and events after a whole input (recursion on the last character: appending is one unfolding)
pub open spec fn run(inp: Seq<char>, utf8: bool) -> (St, Seq<Ev>)
    decreases inp.len(),
{
    if inp.len() == 0 { (St::Ground, Seq::<Ev>::empty()) }
    else {
        let prev = run(inp.drop_last(), utf8);
        let s = step(prev.0, inp.last(), utf8);
        (s.0, prev.1 + s.1)
    }
}
pub proof fn lemma_run_push(inp: Seq<char>, c: char, utf8: bool) //#lemma: C03 C19
    ensures run(inp.push(c), utf8) == (step(run(inp, utf8).0, c, utf8).0, run(inp, utf8).1 + step(run(inp, utf8).0, c, utf8).1),
{
    assert(inp.push(c).drop_last() =~= inp);
    assert(inp.push(c).last() == c);
}

