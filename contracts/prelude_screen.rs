// ===========================================================================
// prelude_screen.rs -- hand-written specification vocabulary for the Screen unit.
// Everything here is ghost (spec/proof) code or a *trusted* std/shim specification;
// the scan in ../check lists every trusted item in the evidence.
// ===========================================================================
use vstd::std_specs::hash::*;
use vstd::std_specs::cmp::*;
use vstd::std_specs::iter::IteratorSpec;

broadcast use vstd::std_specs::hash::group_hash_axioms;

// ---- real types imported (fields stay visible) ------------------------------
#[verifier::external_type_specification] pub struct ExCharOpts(CharOpts);
#[verifier::external_type_specification] pub struct ExCursor(Cursor);
#[verifier::external_type_specification] pub struct ExMargins(Margins);
#[verifier::external_type_specification] pub struct ExSavepoint(Savepoint);
#[verifier::external_type_specification] pub struct ExCharset(Charset);
#[verifier::external_type_specification] pub struct ExScreen(Screen);

// ---- TRUSTED: derived Clone impls return an equal value ----------------------
pub assume_specification[<CharOpts as Clone>::clone](c: &CharOpts) -> (r: CharOpts) ensures r == *c;
pub assume_specification[<Cursor as Clone>::clone](c: &Cursor) -> (r: Cursor) ensures r == *c;
pub assume_specification[<Margins as Clone>::clone](c: &Margins) -> (r: Margins) ensures r == *c;
pub assume_specification[<Charset as Clone>::clone](c: &Charset) -> (r: Charset) ensures r == *c;
pub assume_specification[<Charset as PartialEq>::eq](a: &Charset, b: &Charset) -> (r: bool) ensures r == (*a == *b);

// ---- TRUSTED: std functions vstd has no spec for -----------------------------
pub assume_specification<T>[Option::<T>::or](a: Option<T>, b: Option<T>) -> (r: Option<T>)
    ensures r == (if a.is_some() { a } else { b });

#[verifier::allow(undeclared_external_trait)]
pub assume_specification<T: Ord + std::marker::Destruct>[std::cmp::min::<T>](a: T, b: T) -> (r: T)
    ensures T::obeys_cmp_spec() ==> r == (match a.cmp_spec(&b) { core::cmp::Ordering::Greater => b, _ => a });

pub assume_specification<'a, K: Eq + std::hash::Hash + std::borrow::Borrow<Q>, V, S: std::hash::BuildHasher, A: std::alloc::Allocator, Q: std::hash::Hash + Eq + ?Sized>
    [HashMap::<K, V, S, A>::get_mut](m: &'a mut HashMap<K, V, S, A>, k: &Q) -> (r: Option<&'a mut V>)
    ensures
        obeys_key_model::<K>() && builds_valid_hashers::<S>() ==> {
            match r {
                Some(v) => contains_borrowed_key(old(m)@, k) && maps_borrowed_key_to_value(old(m)@, k, *v)
                    && contains_borrowed_key(final(m)@, k) && maps_borrowed_key_to_value(final(m)@, k, *final(v))
                    && final(m)@.dom() == old(m)@.dom()
                    && (forall|k2: K| #![trigger final(m)@[k2]] old(m)@.contains_key(k2) && !maps_borrowed_key_to_value(old(m)@, k, old(m)@[k2]) ==> final(m)@[k2] == old(m)@[k2]),
                None => !contains_borrowed_key(old(m)@, k) && final(m)@ == old(m)@,
            }
        };

// Option::map_or: the default for None, the closure's own result for Some (the closure body is verified where it is written)
pub assume_specification<T, U, F: FnOnce(T) -> U>[Option::<T>::map_or](opt: Option<T>, default: U, f: F) -> (r: U)
    requires opt.is_some() ==> f.requires((opt.unwrap(),)),
    ensures match opt { None => r == default, Some(x) => f.ensures((x,), r) };
// mirrors vstd's own specification of Entry::or_insert (std_specs/hash.rs), with the default produced by the closure
pub assume_specification<'a, K, V, A: std::alloc::Allocator, F: FnOnce() -> V>
    [std::collections::hash_map::Entry::<'a, K, V, A>::or_insert_with](entry: std::collections::hash_map::Entry<'a, K, V, A>, default: F) -> (value: &'a mut V)
    requires
        default.requires(()),
    ensures
        match entry.value() { Some(v) => *value == v, None => default.ensures((), *value) },
        entry.final_value() == Some(*final(value));

// ---- abstract view -------------------------------------------------------------
pub const DIM_MAX: u32 = 65535;
pub const ARG_MAX: u32 = 65535;

/// A cell as an embedder sees it (strings by their character sequences).
pub struct Cell {
    pub data: Seq<char>, pub fg: Seq<char>, pub bg: Seq<char>,
    pub bold: bool, pub italics: bool, pub underscore: bool,
    pub strikethrough: bool, pub reverse: bool, pub blink: bool,
}

pub open spec fn cv(c: CharOpts) -> Cell {
    Cell { data: c.data@, fg: c.fg@, bg: c.bg@, bold: c.bold, italics: c.italics, underscore: c.underscore,
           strikethrough: c.strikethrough, reverse: c.reverse, blink: c.blink }
}

pub open spec fn s_space() -> Seq<char> { " "@ }
pub open spec fn s_default() -> Seq<char> { "default"@ }

/// what a never-written cell looks like (depends on DECSCNM only)
pub open spec fn blank_cell(reverse: bool) -> Cell {
    Cell { data: s_space(), fg: s_default(), bg: s_default(), bold: false, italics: false, underscore: false,
           strikethrough: false, reverse: reverse, blink: false }
}
pub open spec fn blank(s: Screen) -> Cell { blank_cell(s.mode@.contains(DECSCNM)) }

pub open spec fn stored(s: Screen, y: u32, x: u32) -> bool {
    s.buffer@.contains_key(y) && s.buffer@[y]@.contains_key(x)
}

pub open spec fn rget(row: Map<u32, CharOpts>, x: u32, dflt: Cell) -> Cell {
    if row.contains_key(x) { cv(row[x]) } else { dflt }
}

/// the observable cell at (y,x) of a buffer under a given DECSCNM state: the stored cell, else the blank.
/// `obs` is *inline*: contracts quantify with the trigger cell_at(buffer@, reverse-video?, y, x), so a frame
/// condition `a.buffer@ == b.buffer@ && a.mode@ == b.mode@` transfers every cell fact from b to a by congruence,
/// with no extra quantifier.
pub open spec fn cell_at(buf: Map<u32, HashMap<u32, CharOpts>>, rev: bool, y: u32, x: u32) -> Cell {
    if buf.contains_key(y) { rget(buf[y]@, x, blank_cell(rev)) } else { blank_cell(rev) }
}
#[verifier::inline]
pub open spec fn obs(s: Screen, y: u32, x: u32) -> Cell { cell_at(s.buffer@, s.mode@.contains(DECSCNM), y, x) }

// ---- representation invariant (C09) ----------------------------------------------
pub open spec fn wf_geom(s: Screen) -> bool { 1 <= s.columns <= DIM_MAX && 1 <= s.lines <= DIM_MAX }
pub open spec fn wf_cursor(s: Screen) -> bool { s.cursor.y < s.lines && s.cursor.x <= s.columns }
pub open spec fn margins_ok(m: Option<Margins>, lines: u32) -> bool {
    match m { Some(mm) => mm.top < mm.bottom && mm.bottom <= lines - 1, None => true }
}
pub open spec fn wf_dirty(s: Screen) -> bool { forall|y: u32| #![trigger s.dirty@.contains(y)] s.dirty@.contains(y) ==> y < s.lines }
/// no hidden cells: nothing is stored outside the visible grid
pub open spec fn wf_cells(s: Screen) -> bool {
    forall|y: u32, x: u32| #![trigger s.buffer@[y]@.contains_key(x)]
        s.buffer@.contains_key(y) && s.buffer@[y]@.contains_key(x) ==> y < s.lines && x < s.columns
}
pub open spec fn wf_tabs(s: Screen) -> bool { forall|t: u32| #![trigger s.tabstops@.contains(t)] s.tabstops@.contains(t) ==> t < s.columns }
pub open spec fn wf_attr(c: Cursor) -> bool { c.attr.data@ == s_space() }

#[verifier::opaque]
pub open spec fn saves_ok(sv: Seq<Savepoint>) -> bool {
    forall|i: int| #![trigger sv[i]] 0 <= i < sv.len() ==> wf_attr(sv[i].cursor)
}
pub open spec fn wf_saves(s: Screen) -> bool { saves_ok(s.savepoints@) }
pub open spec fn wf_saved_columns(s: Screen) -> bool { match s.saved_columns { Some(c) => 1 <= c <= DIM_MAX, None => true } }
pub open spec fn wf(s: Screen) -> bool {
    wf_geom(s) && wf_cursor(s) && margins_ok(s.margins, s.lines) && wf_dirty(s) && wf_cells(s) && wf_attr(s.cursor) && wf_saves(s)
    && wf_saved_columns(s)
}

pub open spec fn arg_ok(n: Option<u32>) -> bool { match n { Some(v) => v <= ARG_MAX, None => true } }
/// "an absent or zero parameter means 1"
pub open spec fn eff(n: Option<u32>) -> int { match n { Some(v) => if v == 0 { 1 } else { v as int }, None => 1 } }

pub open spec fn top_of(s: Screen) -> int { match s.margins { Some(m) => m.top as int, None => 0 } }
pub open spec fn bottom_of(s: Screen) -> int { match s.margins { Some(m) => m.bottom as int, None => s.lines - 1 } }

/// everything except cursor position
pub open spec fn same_but_cursor_xy(a: Screen, b: Screen) -> bool {
    a.savepoints@ == b.savepoints@ && a.columns == b.columns && a.lines == b.lines && a.dirty@ == b.dirty@
    && a.margins == b.margins && a.buffer@ == b.buffer@ && a.mode@ == b.mode@ && a.title@ == b.title@
    && a.icon_name@ == b.icon_name@ && a.charset == b.charset && a.g0_charset == b.g0_charset
    && a.g1_charset == b.g1_charset && a.tabstops@ == b.tabstops@ && a.cursor.attr == b.cursor.attr
    && a.cursor.hidden == b.cursor.hidden && a.saved_columns == b.saved_columns
}

pub proof fn lemma_mode_consts()
    ensures DECTCEM == 800, DECSCNM == 160, DECOM == 192, DECAWM == 224, DECCOLM == 96, LNM == 20, IRM == 4,
{
    assert(25u32 << 5 == 800) by (bit_vector);
    assert(5u32 << 5 == 160) by (bit_vector);
    assert(6u32 << 5 == 192) by (bit_vector);
    assert(7u32 << 5 == 224) by (bit_vector);
    assert(3u32 << 5 == 96) by (bit_vector);
}

pub open spec fn vmin(a: int, b: int) -> int { if a <= b { a } else { b } }
pub open spec fn vmax(a: int, b: int) -> int { if a >= b { a } else { b } }
/// origin mode in force: DECOM set and a scrolling region defined
pub open spec fn origin_on(s: Screen) -> bool { s.mode@.contains(DECOM) && s.margins.is_some() }
/// clamp a row into the region (if `region`) or the screen
pub open spec fn clamp_y(s: Screen, y: int, region: bool) -> int {
    if region { vmin(vmax(y, top_of(s)), bottom_of(s)) } else { vmin(vmax(y, 0), s.lines - 1) }
}
/// CUP/HVP in origin mode addressing a row outside the region is ignored
pub open spec fn cup_ignored(s: Screen, line: Option<u32>) -> bool {
    origin_on(s) && eff(line) - 1 + top_of(s) > bottom_of(s)
}

/// everything except the cell buffer and the dirty set
pub open spec fn same_but_cells_dirty(a: Screen, b: Screen) -> bool {
    a.savepoints@ == b.savepoints@ && a.columns == b.columns && a.lines == b.lines
    && a.margins == b.margins && a.mode@ == b.mode@ && a.title@ == b.title@
    && a.icon_name@ == b.icon_name@ && a.charset == b.charset && a.g0_charset == b.g0_charset
    && a.g1_charset == b.g1_charset && a.tabstops@ == b.tabstops@ && a.cursor == b.cursor
    && a.saved_columns == b.saved_columns
}
/// the cell an erase operation writes: a space carrying the cursor's current rendition
pub open spec fn erased(s: Screen) -> Cell { cv(s.cursor.attr) }

/// EL column selection (how: absent = 0)
pub open spec fn el_range(s: Screen, how: Option<u32>, x: u32) -> bool {
    match how { None | Some(0) => s.cursor.x <= x, Some(1) => x <= s.cursor.x, Some(2) => true, _ => false }
}
pub open spec fn el_supported(how: Option<u32>) -> bool { match how { None | Some(0) | Some(1) | Some(2) => true, _ => false } }

// ---- TRUSTED shim: HashSet<u32>::extend(Range<u32>) ------------------------------
#[verifier::external_body]
pub fn hs_extend_range(s: &mut HashSet<u32>, r: std::ops::Range<u32>)
    ensures forall|v: u32| #![trigger final(s)@.contains(v)] final(s)@.contains(v) == (old(s)@.contains(v) || (r.start <= v && v < r.end)),
{
    s.extend(r)
}

pub assume_specification<Idx: Clone>[<std::ops::Range<Idx> as Clone>::clone](c: &std::ops::Range<Idx>) -> (r: std::ops::Range<Idx>) ensures r == *c;

/// ED cell selection (how: absent = 0)
pub open spec fn ed_range(s: Screen, how: Option<u32>, y: u32, x: u32) -> bool {
    match how {
        None | Some(0) => y > s.cursor.y || (y == s.cursor.y && x >= s.cursor.x),
        Some(1) => y < s.cursor.y || (y == s.cursor.y && x <= s.cursor.x),
        Some(2) | Some(3) => true,
        _ => false,
    }
}
/// rows in which ED may change something
pub open spec fn ed_row(s: Screen, how: Option<u32>, y: u32) -> bool {
    match how {
        None | Some(0) => y >= s.cursor.y,
        Some(1) => y <= s.cursor.y,
        Some(2) | Some(3) => true,
        _ => false,
    }
}

/// everything except cells, dirty rows and the cursor column
pub open spec fn same_but_cells_dirty_cx(a: Screen, b: Screen) -> bool {
    a.savepoints@ == b.savepoints@ && a.columns == b.columns && a.lines == b.lines
    && a.margins == b.margins && a.mode@ == b.mode@ && a.title@ == b.title@
    && a.icon_name@ == b.icon_name@ && a.charset == b.charset && a.g0_charset == b.g0_charset
    && a.g1_charset == b.g1_charset && a.tabstops@ == b.tabstops@ && a.cursor.y == b.cursor.y
    && a.cursor.attr == b.cursor.attr && a.cursor.hidden == b.cursor.hidden
    && a.saved_columns == b.saved_columns
}
pub open spec fn in_region(s: Screen) -> bool { top_of(s) <= s.cursor.y && s.cursor.y <= bottom_of(s) }

/// a row of the sparse buffer as a map (absent row = empty map)
pub open spec fn rowmap(b: Map<u32, HashMap<u32, CharOpts>>, r: u32) -> Map<u32, CharOpts> {
    if b.contains_key(r) { b[r]@ } else { Map::empty() }
}
/// buffer `b` shows the same rows as `p` (rows may have been materialised as empty maps)
pub open spec fn same_rows(b: Map<u32, HashMap<u32, CharOpts>>, p: Map<u32, HashMap<u32, CharOpts>>) -> bool {
    (forall|r: u32| #![trigger b.contains_key(r)] p.contains_key(r) ==> b.contains_key(r))
    && (forall|r: u32| #![trigger b[r]] b.contains_key(r) ==> b[r]@ == rowmap(p, r))
}

/// everything except cells, dirty rows and the cursor position
pub open spec fn same_but_cells_dirty_cxy(a: Screen, b: Screen) -> bool {
    a.savepoints@ == b.savepoints@ && a.columns == b.columns && a.lines == b.lines
    && a.margins == b.margins && a.mode@ == b.mode@ && a.title@ == b.title@
    && a.icon_name@ == b.icon_name@ && a.charset == b.charset && a.g0_charset == b.g0_charset
    && a.g1_charset == b.g1_charset && a.tabstops@ == b.tabstops@
    && a.cursor.attr == b.cursor.attr && a.cursor.hidden == b.cursor.hidden
    && a.saved_columns == b.saved_columns
}

/// everything except margins and the cursor position
pub open spec fn same_but_margins_cxy(a: Screen, b: Screen) -> bool {
    a.savepoints@ == b.savepoints@ && a.columns == b.columns && a.lines == b.lines && a.dirty@ == b.dirty@
    && a.buffer@ == b.buffer@ && a.mode@ == b.mode@ && a.title@ == b.title@
    && a.icon_name@ == b.icon_name@ && a.charset == b.charset && a.g0_charset == b.g0_charset
    && a.g1_charset == b.g1_charset && a.tabstops@ == b.tabstops@
    && a.cursor.attr == b.cursor.attr && a.cursor.hidden == b.cursor.hidden
    && a.saved_columns == b.saved_columns
}
/// DECSTBM: `CSI r` alone (both absent, or top 0 and bottom absent) removes the region
pub open spec fn stbm_clears(top: Option<u32>, bottom: Option<u32>) -> bool {
    (top.is_none() || top == Some(0u32)) && bottom.is_none()
}
/// 1-based parameter to 0-based row, clamped to the screen; absent keeps the current value
pub open spec fn stbm_row(p: Option<u32>, cur: int, lines: int) -> int {
    match p { None => cur, Some(v) => vmax(0, vmin(v - 1, lines - 1)) }
}
pub open spec fn stbm_top(s: Screen, top: Option<u32>) -> int { stbm_row(top, top_of(s), s.lines as int) }
pub open spec fn stbm_bottom(s: Screen, bottom: Option<u32>) -> int { stbm_row(bottom, bottom_of(s), s.lines as int) }
pub open spec fn stbm_accepts(s: Screen, top: Option<u32>, bottom: Option<u32>) -> bool {
    !stbm_clears(top, bottom) && stbm_bottom(s, bottom) - stbm_top(s, top) >= 1
}

// ---- TRUSTED shims for iterator-adapter expressions (DESIGN 3.3); each body is the original expression ----
#[verifier::external_body]
pub fn vec_from_slice(s: &[u32]) -> (r: Vec<u32>)
    ensures r@ == s@,
{
    Vec::from(s)
}

/// `S.iter().map(F).collect::<Vec<_>>()` with the closure passed through: F itself stays in verified text
#[verifier::external_body]
pub fn slice_map_collect<F: Fn(&u32) -> u32>(s: &[u32], f: F) -> (r: Vec<u32>)
    requires
        forall|i: int| 0 <= i < s@.len() ==> f.requires((&#[trigger] s@[i],)),
    ensures
        r@.len() == s@.len(),
        forall|i: int| 0 <= i < s@.len() ==> f.ensures((&s@[i],), #[trigger] r@[i]),
{
    s.iter().map(f).collect::<Vec<_>>()
}

/// membership in a Vec's element sequence (opaque: callers connect it to has_mode through lemma_has_mode)
#[verifier::opaque]
pub open spec fn vec_has(v: Seq<u32>, k: u32) -> bool { v.contains(k) }

/// `V.iter().any(|m| *m == K)`
#[verifier::external_body]
pub fn vec_any_eq(v: &Vec<u32>, k: u32) -> (r: bool)
    ensures r == vec_has(v@, k),
{
    v.iter().any(|m| *m == k)
}

/// `S.extend(V.iter())` on HashSet<u32>
#[verifier::external_body]
pub fn hs_extend_vec(s: &mut HashSet<u32>, v: &Vec<u32>)
    ensures forall|x: u32| #![trigger final(s)@.contains(x)] final(s)@.contains(x) == (old(s)@.contains(x) || vec_has(v@, x)),
{
    s.extend(v.iter())
}

/// `S.iter().filter(|&&x| !V.iter().any(|&y| x == y)).cloned().collect()` on HashSet<u32>
#[verifier::external_body]
pub fn hs_minus_vec(s: &HashSet<u32>, v: &Vec<u32>) -> (r: HashSet<u32>)
    ensures forall|x: u32| #![trigger r@.contains(x)] r@.contains(x) == (s@.contains(x) && !vec_has(v@, x)),
{
    s.iter().filter(|&&x| !v.iter().any(|&y| x == y)).cloned().collect()
}

/// `for line in B.values_mut() { for x in line.iter_mut() { x.1.reverse = R; } }`
#[verifier::external_body]
pub fn buffer_set_reverse(b: &mut HashMap<u32, HashMap<u32, CharOpts>>, rev: bool)
    ensures
        forall|y: u32| #![trigger final(b)@.contains_key(y)] final(b)@.contains_key(y) == old(b)@.contains_key(y),
        forall|y: u32, x: u32| #![trigger final(b)@[y]@.contains_key(x)] old(b)@.contains_key(y) ==> (final(b)@[y]@.contains_key(x) == old(b)@[y]@.contains_key(x)),
        forall|y: u32, x: u32| #![trigger final(b)@[y]@[x]] old(b)@.contains_key(y) && old(b)@[y]@.contains_key(x) ==>
            cv(final(b)@[y]@[x]) == (Cell { reverse: rev, ..cv(old(b)@[y]@[x]) }),
{
    for line in b.values_mut() {
        for x in line.iter_mut() {
            x.1.reverse = rev;
        }
    }
}

/// `for (y, line) in B.iter_mut() { D.insert(*y); for x in line.iter_mut() { x.1.reverse = R; } }`: the same, and exactly the
/// STORED rows are added to the dirty set
#[verifier::external_body]
pub fn buffer_set_reverse_mark(b: &mut HashMap<u32, HashMap<u32, CharOpts>>, d: &mut HashSet<u32>, rev: bool)
    ensures
        forall|y: u32| #![trigger final(b)@.contains_key(y)] final(b)@.contains_key(y) == old(b)@.contains_key(y),
        forall|y: u32, x: u32| #![trigger final(b)@[y]@.contains_key(x)] old(b)@.contains_key(y) ==> (final(b)@[y]@.contains_key(x) == old(b)@[y]@.contains_key(x)),
        forall|y: u32, x: u32| #![trigger final(b)@[y]@[x]] old(b)@.contains_key(y) && old(b)@[y]@.contains_key(x) ==>
            cv(final(b)@[y]@[x]) == (Cell { reverse: rev, ..cv(old(b)@[y]@[x]) }),
        forall|y: u32| #![trigger final(d)@.contains(y)] final(d)@.contains(y) == (old(d)@.contains(y) || old(b)@.contains_key(y)),
{
    for (y, line) in b.iter_mut() {
        d.insert(*y);
        for x in line.iter_mut() {
            x.1.reverse = rev;
        }
    }
}

/// `for line in B.values_mut() { for x in LO..HI { line.remove(&x); } }`
#[verifier::external_body]
pub fn buffer_remove_columns(b: &mut HashMap<u32, HashMap<u32, CharOpts>>, lo: u32, hi: u32)
    ensures
        forall|y: u32| #![trigger final(b)@.contains_key(y)] final(b)@.contains_key(y) == old(b)@.contains_key(y),
        forall|y: u32, x: u32| #![trigger final(b)@[y]@.contains_key(x)] old(b)@.contains_key(y) ==>
            (final(b)@[y]@.contains_key(x) == (old(b)@[y]@.contains_key(x) && !(lo <= x && x < hi))),
        forall|y: u32, x: u32| #![trigger final(b)@[y]@[x]] old(b)@.contains_key(y) && old(b)@[y]@.contains_key(x) && !(lo <= x && x < hi) ==>
            final(b)@[y]@[x] == old(b)@[y]@[x],
{
    for line in b.values_mut() {
        for x in lo..hi {
            line.remove(&x);
        }
    }
}


// ---- modes (C12) ---------------------------------------------------------------
/// the number actually stored for a mode parameter: DEC-private numbers are shifted left by 5
pub open spec fn mode_code(m: u32, private: bool) -> u32 { if private { m << 5 } else { m } }
#[verifier::opaque]
pub open spec fn has_mode(modes: Seq<u32>, private: bool, k: u32) -> bool {
    exists|i: int| 0 <= i < modes.len() && mode_code(#[trigger] modes[i], private) == k
}
pub open spec fn modes_ok(modes: Seq<u32>) -> bool { forall|i: int| 0 <= i < modes.len() ==> #[trigger] modes[i] <= ARG_MAX }
pub open spec fn rev_if(b: bool, r: bool, c: Cell) -> Cell { if b { Cell { reverse: r, ..c } } else { c } }
/// row of the home position for a state with the given modes/margins
pub open spec fn home_y(s: Screen) -> int { if origin_on(s) { top_of(s) } else { 0 } }

/// everything except the mode set
pub open spec fn same_but_mode(a: Screen, b: Screen) -> bool {
    a.savepoints@ == b.savepoints@ && a.columns == b.columns && a.lines == b.lines && a.dirty@ == b.dirty@
    && a.margins == b.margins && a.buffer@ == b.buffer@ && a.title@ == b.title@
    && a.icon_name@ == b.icon_name@ && a.charset == b.charset && a.g0_charset == b.g0_charset
    && a.g1_charset == b.g1_charset && a.tabstops@ == b.tabstops@ && a.cursor == b.cursor
    && a.saved_columns == b.saved_columns
}
/// the components no mode switch, resize or save/restore ever touches
pub open spec fn same_static(a: Screen, b: Screen) -> bool {
    a.title@ == b.title@ && a.icon_name@ == b.icon_name@ && a.tabstops@ == b.tabstops@
}
pub open spec fn same_charsets(a: Screen, b: Screen) -> bool {
    a.charset == b.charset && a.g0_charset == b.g0_charset && a.g1_charset == b.g1_charset
}

pub proof fn lemma_has_mode(ml: Seq<u32>, modes: Seq<u32>, private: bool, k: u32)
    requires
        ml.len() == modes.len(),
        forall|i: int| 0 <= i < modes.len() ==> #[trigger] ml[i] == mode_code(modes[i], private),
    ensures
        vec_has(ml, k) == has_mode(modes, private, k),
{
    reveal(has_mode);
    reveal(vec_has);
    if ml.contains(k) {
        let i = choose|i: int| 0 <= i < ml.len() && ml[i] == k;
        assert(mode_code(modes[i], private) == k);
    }
    if has_mode(modes, private, k) {
        let i = choose|i: int| 0 <= i < modes.len() && mode_code(#[trigger] modes[i], private) == k;
        assert(ml[i] == k);
    }
}

pub open spec fn same_but_cursor_attr(a: Screen, b: Screen) -> bool {
    a.savepoints@ == b.savepoints@ && a.columns == b.columns && a.lines == b.lines && a.dirty@ == b.dirty@
    && a.margins == b.margins && a.buffer@ == b.buffer@ && a.mode@ == b.mode@ && a.title@ == b.title@
    && a.icon_name@ == b.icon_name@ && a.charset == b.charset && a.g0_charset == b.g0_charset
    && a.g1_charset == b.g1_charset && a.tabstops@ == b.tabstops@ && a.cursor.x == b.cursor.x && a.cursor.y == b.cursor.y
    && a.cursor.hidden == b.cursor.hidden && a.saved_columns == b.saved_columns
}
pub open spec fn same_but_savepoints(a: Screen, b: Screen) -> bool {
    a.columns == b.columns && a.lines == b.lines && a.dirty@ == b.dirty@
    && a.margins == b.margins && a.buffer@ == b.buffer@ && a.mode@ == b.mode@ && a.title@ == b.title@
    && a.icon_name@ == b.icon_name@ && a.charset == b.charset && a.g0_charset == b.g0_charset
    && a.g1_charset == b.g1_charset && a.tabstops@ == b.tabstops@ && a.cursor == b.cursor
    && a.saved_columns == b.saved_columns
}

pub open spec fn rs_lines(s: Screen, lines: Option<u32>) -> u32 { match lines { Some(l) => l, None => s.lines } }
pub open spec fn rs_cols(s: Screen, columns: Option<u32>) -> u32 { match columns { Some(c) => c, None => s.columns } }
/// every component equal (a complete no-op)
pub open spec fn same_all(a: Screen, b: Screen) -> bool {
    same_but_mode(a, b) && a.mode@ == b.mode@
}

/// same observable grid: same buffer, same DECSCNM state (quantifier-free; see cell_at)
pub open spec fn obs_same(a: Screen, b: Screen) -> bool {
    a.buffer@ == b.buffer@ && a.mode@.contains(DECSCNM) == b.mode@.contains(DECSCNM)
}

/// composition of the per-block effects of set_mode / reset_mode on the observable grid (isolated query)
pub proof fn lemma_mode_cells(pre: Screen, m1: Screen, s4: Screen, s5: Screen, s6: Screen, fin: Screen, has_s: bool, has_c: bool, rev: bool)
    requires
        m1.buffer@ == pre.buffer@,
        has_s ==> m1.mode@.contains(DECSCNM) == rev,
        !has_s ==> m1.mode@.contains(DECSCNM) == pre.mode@.contains(DECSCNM),
        forall|y: u32, x: u32| #![trigger obs(s4, y, x)] y < fin.lines && x < fin.columns ==> obs(s4, y, x) == (if has_c { erased(pre) } else { obs(m1, y, x) }),
        obs_same(s5, s4),
        forall|y: u32, x: u32| #![trigger obs(s6, y, x)] obs(s6, y, x) == rev_if(has_s, rev, obs(s5, y, x)),
        obs_same(fin, s6),
    ensures
        forall|y: u32, x: u32| #![trigger obs(fin, y, x)] y < fin.lines && x < fin.columns ==>
            obs(fin, y, x) == rev_if(has_s, rev, if has_c { erased(pre) } else { obs(pre, y, x) }),
{
    assert forall|y: u32, x: u32| #![trigger obs(fin, y, x)] y < fin.lines && x < fin.columns implies
        obs(fin, y, x) == rev_if(has_s, rev, if has_c { erased(pre) } else { obs(pre, y, x) }) by {
        assert(obs(fin, y, x) == obs(s6, y, x));
        assert(obs(s6, y, x) == rev_if(has_s, rev, obs(s5, y, x)));
        assert(obs(s5, y, x) == obs(s4, y, x));
        if !has_c {
            assert(obs(s4, y, x) == obs(m1, y, x));
            assert(obs(m1, y, x) == (if stored(pre, y, x) { obs(pre, y, x) } else { blank(m1) }));
        }
    }
}

pub proof fn lemma_has_mode_single(modes: Seq<u32>, private: bool)
    requires modes.len() == 1,
    ensures forall|v: u32| #![trigger has_mode(modes, private, v)] has_mode(modes, private, v) == (v == mode_code(modes[0], private)),
{
    reveal(has_mode);
    assert forall|v: u32| #![trigger has_mode(modes, private, v)] has_mode(modes, private, v) == (v == mode_code(modes[0], private)) by {
        if v == mode_code(modes[0], private) { assert(mode_code(#[trigger] modes[0], private) == v); }
    }
}

/// `let mut vec: Vec<_> = S.iter().collect(); vec.sort();`
#[verifier::external_body]
pub fn sorted_refs(s: &HashSet<u32>) -> (r: Vec<&u32>)
    ensures
        forall|i: int, j: int| #![trigger r@[i], r@[j]] 0 <= i < j < r@.len() ==> *r@[i] < *r@[j],
        forall|i: int| #![trigger r@[i]] 0 <= i < r@.len() ==> s@.contains(*r@[i]),
        forall|v: u32| #![trigger s@.contains(v)] s@.contains(v) ==> exists|i: int| 0 <= i < r@.len() && *#[trigger] r@[i] == v,
{
    let mut vec: Vec<_> = s.iter().collect();
    vec.sort();
    vec
}

/// everything except the cursor column
pub open spec fn same_but_cx(a: Screen, b: Screen) -> bool { same_but_cursor_xy(a, b) && a.cursor.y == b.cursor.y }
/// `m` is the nearest tab stop strictly right of column x
pub open spec fn next_stop(s: Screen, m: u32) -> bool {
    s.tabstops@.contains(m) && m > s.cursor.x && forall|t: u32| #![trigger s.tabstops@.contains(t)] s.tabstops@.contains(t) && t > s.cursor.x ==> m <= t
}

// ---- lazy_static tables (contents proved by the Kani harnesses, see kani/) --------------------
pub uninterp spec fn lat1_map() -> [char; 256];
pub uninterp spec fn vt100_map() -> [char; 256];

#[verifier::external_body]
pub fn default_mode_clone() -> (r: HashSet<u32>)
    ensures forall|v: u32| #![trigger r@.contains(v)] r@.contains(v) == (v == DECAWM || v == DECTCEM),
{
    unimplemented!() // original expression: _DEFAULT_MODE.clone()
}
#[verifier::external_body]
pub fn lat1_map_clone() -> (r: [char; 256])
    ensures r == lat1_map(),
{
    unimplemented!() // original expression: LAT1_MAP.clone()
}
#[verifier::external_body]
pub fn vt100_map_clone() -> (r: [char; 256])
    ensures r == vt100_map(),
{
    unimplemented!() // original expression: VT100_MAP.clone()
}
#[verifier::external_body]
pub fn hs_extend_step8(s: &mut HashSet<u32>, n: u32)
    ensures forall|v: u32| #![trigger final(s)@.contains(v)] final(s)@.contains(v) == (old(s)@.contains(v) || (8 <= v && v < n && v % 8 == 0)),
{
    s.extend((8..n).step_by(8))
}

/// power-on state of a screen of the given size (everything except the saved-cursor stack)
pub open spec fn is_init(s: Screen, columns: u32, lines: u32) -> bool {
    &&& s.columns == columns && s.lines == lines
    &&& s.buffer@ == Map::<u32, HashMap<u32, CharOpts>>::empty()
    &&& (forall|r: u32| #![trigger s.dirty@.contains(r)] s.dirty@.contains(r) == (r < lines))
    &&& s.margins.is_none()
    &&& (forall|v: u32| #![trigger s.mode@.contains(v)] s.mode@.contains(v) == (v == DECAWM || v == DECTCEM))
    &&& s.title@ == ""@ && s.icon_name@ == ""@
    &&& s.charset == Charset::G0 && s.g0_charset == lat1_map() && s.g1_charset == vt100_map()
    &&& (forall|t: u32| #![trigger s.tabstops@.contains(t)] s.tabstops@.contains(t) == (8 <= t && t < columns && t % 8 == 0))
    &&& s.cursor.x == 0 && s.cursor.y == 0 && !s.cursor.hidden && cv(s.cursor.attr) == blank_cell(false)
    &&& s.saved_columns.is_none()
}

pub open spec fn same_but_tabstops(a: Screen, b: Screen) -> bool {
    a.savepoints@ == b.savepoints@ && a.columns == b.columns && a.lines == b.lines && a.dirty@ == b.dirty@
    && a.margins == b.margins && a.buffer@ == b.buffer@ && a.mode@ == b.mode@ && a.title@ == b.title@
    && a.icon_name@ == b.icon_name@ && a.charset == b.charset && a.g0_charset == b.g0_charset
    && a.g1_charset == b.g1_charset && a.cursor == b.cursor && a.saved_columns == b.saved_columns
}

// ---- stand-in for the unicode-width dependency (TRUSTED interface stub; the function is uninterpreted:
//      contracts hold for any width function) ----------------------------------------------------------
pub uninterp spec fn char_width(c: char) -> Option<usize>;
pub trait UnicodeWidthChar: Sized {
    fn width(self) -> (r: Option<usize>);
}
impl UnicodeWidthChar for char {
    #[verifier::external_body]
    fn width(self) -> (r: Option<usize>)
        ensures r == char_width(self),
    {
        unimplemented!() // real implementation: unicode_width::UnicodeWidthChar::width
    }
}

/// `S.chars().next().and_then(|c| c.width()).is_some_and(|s| s == 2)`
#[verifier::external_body]
pub fn first_char_is_wide(s: &String) -> (r: bool)
    ensures r == (s@.len() > 0 && char_width(s@[0]) == Some(2usize)),
{
    unimplemented!()
}
/// `R.push_str(&S)`
#[verifier::external_body]
pub fn string_push_str(r: &mut String, s: &String)
    ensures final(r)@ == old(r)@ + s@,
{
    r.push_str(s)
}

// ---- display (C10) ---------------------------------------------------------------------
pub open spec fn is_wide_text(d: Seq<char>) -> bool { d.len() > 0 && char_width(d[0]) == Some(2usize) }
/// the text of columns x.. of a row: cell texts left to right, skipping the cell after a double-width lead
pub open spec fn render_map(row: Map<u32, CharOpts>, cols: int, dflt: Cell, x: int, skip: bool) -> Seq<char>
    decreases cols - x,
{
    if x >= cols || x < 0 { Seq::<char>::empty() }
    else if skip { render_map(row, cols, dflt, x + 1, false) }
    else {
        let d = rget(row, x as u32, dflt).data;
        d + render_map(row, cols, dflt, x + 1, is_wide_text(d))
    }
}
pub open spec fn render_row(s: Screen, y: u32) -> Seq<char> {
    render_map(rowmap(s.buffer@, y), s.columns as int, blank(s), 0, false)
}
/// everything except the cell buffer
pub open spec fn same_but_cells(a: Screen, b: Screen) -> bool { same_but_cells_dirty(a, b) && a.dirty@ == b.dirty@ }
/// cv through a reference (for use inside closure specs, which must not move their captures)
pub open spec fn cvr(c: &CharOpts) -> Cell { cv(*c) }

pub open spec fn same_but_charset(a: Screen, b: Screen) -> bool {
    a.savepoints@ == b.savepoints@ && a.columns == b.columns && a.lines == b.lines && a.dirty@ == b.dirty@
    && a.margins == b.margins && a.buffer@ == b.buffer@ && a.mode@ == b.mode@ && a.title@ == b.title@
    && a.icon_name@ == b.icon_name@ && a.g0_charset == b.g0_charset
    && a.g1_charset == b.g1_charset && a.tabstops@ == b.tabstops@ && a.cursor == b.cursor && a.saved_columns == b.saved_columns
}
pub open spec fn same_but_title(a: Screen, b: Screen) -> bool {
    a.savepoints@ == b.savepoints@ && a.columns == b.columns && a.lines == b.lines && a.dirty@ == b.dirty@
    && a.margins == b.margins && a.buffer@ == b.buffer@ && a.mode@ == b.mode@
    && a.icon_name@ == b.icon_name@ && a.charset == b.charset && a.g0_charset == b.g0_charset
    && a.g1_charset == b.g1_charset && a.tabstops@ == b.tabstops@ && a.cursor == b.cursor && a.saved_columns == b.saved_columns
}
pub open spec fn same_but_icon(a: Screen, b: Screen) -> bool {
    a.savepoints@ == b.savepoints@ && a.columns == b.columns && a.lines == b.lines && a.dirty@ == b.dirty@
    && a.margins == b.margins && a.buffer@ == b.buffer@ && a.mode@ == b.mode@ && a.title@ == b.title@
    && a.charset == b.charset && a.g0_charset == b.g0_charset
    && a.g1_charset == b.g1_charset && a.tabstops@ == b.tabstops@ && a.cursor == b.cursor && a.saved_columns == b.saved_columns
}

// ---- draw (C04) ------------------------------------------------------------------------
/// `S.chars().map(F).collect::<String>()` with the closure passed through
#[verifier::external_body]
pub fn str_map_collect<F: Fn(char) -> char>(s: &str, f: F) -> (r: String)
    requires
        forall|i: int| 0 <= i < s@.len() ==> f.requires((#[trigger] s@[i],)),
    ensures
        r@.len() == s@.len(),
        forall|i: int| 0 <= i < s@.len() ==> f.ensures((s@[i],), #[trigger] r@[i]),
{
    s.chars().map(f).collect::<String>()
}
pub uninterp spec fn nfc(s: Seq<char>) -> Seq<char>;
/// `S.nfc().collect::<String>() + &C.to_string()`
#[verifier::external_body]
pub fn nfc_append(s: &String, c: char) -> (r: String)
    ensures r@ == nfc(s@).push(c),
{
    unimplemented!() // real implementation: unicode_normalization::UnicodeNormalization::nfc
}
pub uninterp spec fn is_comb(c: char) -> bool;
/// stand-in for unicode_normalization::char::is_combining_mark (external crate)
#[verifier::external_body]
pub fn is_combining_mark(c: char) -> (r: bool)
    ensures r == is_comb(c),
{
    unimplemented!()
}
/// ASSUMPTION about the unicode-width dependency: a width is absent, 0, 1 or 2
#[verifier::external_body]
pub proof fn axiom_char_width_range(c: char)
    ensures char_width(c) == None::<usize> || char_width(c) == Some(0usize) || char_width(c) == Some(1usize) || char_width(c) == Some(2usize),
{
}
pub open spec fn width_of(c: char) -> int { match char_width(c) { Some(w) => w as int, None => 0 } }
/// G0/G1 translation of one character (C20): code points above 255 pass through
pub open spec fn xlate(cs: Charset, g0: [char; 256], g1: [char; 256], c: char) -> char {
    if c as u32 > 255 { c } else if cs == Charset::G1 { g1@[c as int] } else { g0@[c as int] }
}

// ---- draw: per-character semantics written from the C04 statement (relations between screen states) ----
/// the cell written for text `d` with the cursor's current rendition
pub open spec fn attr_cell(s: Screen, d: Seq<char>) -> Cell { Cell { data: d, ..cv(s.cursor.attr) } }

/// relational form of linefeed's contract (every clause of linefeed's `ensures` except wf)
#[verifier::opaque]
pub open spec fn linefeed_post(o: Screen, n: Screen) -> bool {
    &&& (o.cursor.y != bottom_of(o) ==> n.buffer@ == o.buffer@ && n.dirty@ == o.dirty@ && n.cursor.y == vmin(o.cursor.y + 1, bottom_of(o)))
    &&& (o.cursor.y == bottom_of(o) ==> n.cursor.y == o.cursor.y
            && (forall|y: u32, x: u32| #![trigger obs(n, y, x)] y < o.lines && x < o.columns ==> obs(n, y, x) == (
                    if top_of(o) <= y && y < bottom_of(o) { obs(o, (y + 1) as u32, x) } else if y == bottom_of(o) { blank(o) } else { obs(o, y, x) }))
            && (forall|r: u32| #![trigger n.dirty@.contains(r)] n.dirty@.contains(r) == (o.dirty@.contains(r) || r < o.lines)))
    &&& n.cursor.x == (if o.mode@.contains(LNM) { 0 } else { o.cursor.x })
    &&& same_but_cells_dirty_cxy(n, o)
}
/// relational form of insert_characters' contract
#[verifier::opaque]
pub open spec fn ich_post(o: Screen, count: Option<u32>, n: Screen) -> bool {
    &&& (forall|y: u32, x: u32| #![trigger obs(n, y, x)] y < o.lines && x < o.columns ==> obs(n, y, x) == (
            if y == o.cursor.y && x >= o.cursor.x {
                if x - eff(count) >= o.cursor.x { obs(o, y, (x - eff(count)) as u32) } else { blank(o) }
            } else { obs(o, y, x) }))
    &&& same_but_cells_dirty(n, o)
    &&& n.dirty@ == o.dirty@.insert(o.cursor.y)
}
/// the pending-wrap row is marked and the cursor returns to column 0 (what draw does before the linefeed)
pub open spec fn cr_mark(o: Screen, n: Screen) -> bool {
    n.cursor.x == 0 && n.cursor.y == o.cursor.y && n.dirty@ == o.dirty@.insert(o.cursor.y) && same_but_cells_dirty_cxy(n, o) && n.buffer@ == o.buffer@
}
/// step 1: with the cursor past the last column, wrap (DECAWM) or step back onto the last column(s)
pub open spec fn wrap_rel(a: Screen, w: int, b: Screen) -> bool {
    if a.cursor.x == a.columns {
        if a.mode@.contains(DECAWM) {
            exists|m: Screen| #[trigger] cr_mark(a, m) && linefeed_post(m, b)
        } else if w > 0 {
            same_but_cursor_xy(b, a) && b.cursor.y == a.cursor.y && b.cursor.x == vmax(a.columns - w, 0)
        } else { same_all(b, a) }
    } else { same_all(b, a) }
}
/// step 2: insert mode shifts the rest of the row right by the character's width
pub open spec fn irm_rel(a: Screen, w: int, b: Screen) -> bool {
    if a.mode@.contains(IRM) && w > 0 { ich_post(a, Some(w as u32), b) } else { same_all(b, a) }
}
/// step 3 for a printable character of width 1 or 2: lead cell (+ empty placeholder), cursor advances by the width
pub open spec fn put_rel(a: Screen, c: char, w: int, b: Screen) -> bool {
    &&& (forall|y: u32, x: u32| #![trigger obs(b, y, x)] y < a.lines && x < a.columns ==> obs(b, y, x) == (
            if y == a.cursor.y && x == a.cursor.x { attr_cell(a, seq![c]) }
            else if w == 2 && y == a.cursor.y && x == a.cursor.x + 1 { attr_cell(a, ""@) }
            else { obs(a, y, x) }))
    &&& b.cursor.x == vmin(a.cursor.x + w, a.columns as int) && b.cursor.y == a.cursor.y
    &&& same_but_cells_dirty_cx(b, a) && b.dirty@ == a.dirty@
}
/// step 3 for a zero-width combining mark: appended to the cell before the cursor (or to the last cell of the previous row;
/// at the home position there is no such cell and nothing changes)
pub open spec fn comb_rel(a: Screen, c: char, b: Screen) -> bool {
    let has_target = !(a.cursor.x == 0 && a.cursor.y == 0);
    let ty: int = if a.cursor.x > 0 { a.cursor.y as int } else { a.cursor.y - 1 };
    let tx: int = if a.cursor.x > 0 { a.cursor.x - 1 } else { a.columns - 1 };
    &&& (forall|y: u32, x: u32| #![trigger obs(b, y, x)] y < a.lines && x < a.columns ==> obs(b, y, x) == (
            if has_target && y == ty && x == tx { Cell { data: nfc(obs(a, y, x).data).push(c), ..obs(a, y, x) } } else { obs(a, y, x) }))
    &&& same_but_cells_dirty(b, a)
    &&& b.dirty@ == (if a.cursor.x == 0 && a.cursor.y > 0 { a.dirty@.insert(ty as u32) } else { a.dirty@ })
}
/// one (already translated) character
pub open spec fn draw_char(a: Screen, c: char, b: Screen) -> bool {
    let w = width_of(c);
    if w == 0 && !is_comb(c) { same_all(b, a) }
    else {
        exists|a1: Screen, a2: Screen| #![trigger wrap_rel(a, w, a1), irm_rel(a1, w, a2)]
            wrap_rel(a, w, a1) && irm_rel(a1, w, a2) && (if w >= 1 { put_rel(a2, c, w, b) } else { comb_rel(a2, c, b) })
    }
}
/// a whole (translated) text, character by character (recursion on the last character, to match the loop)
pub open spec fn draw_seq(a: Screen, t: Seq<char>, b: Screen) -> bool
    decreases t.len(),
{
    if t.len() == 0 { b == a }
    else { exists|m: Screen| #![trigger draw_char(m, t.last(), b)] draw_seq(a, t.drop_last(), m) && draw_char(m, t.last(), b) }
}
pub open spec fn xl_seq(s: Screen, t: Seq<char>) -> Seq<char> {
    Seq::new(t.len(), |i: int| xlate(s.charset, s.g0_charset, s.g1_charset, t[i]))
}

/// `C.to_string()` for a char C
#[verifier::external_body]
pub fn char_to_string(c: char) -> (r: String)
    ensures r@ == seq![c],
{
    c.to_string()
}
/// `S.to_string()` for a string literal S
#[verifier::external_body]
pub fn str_to_string(s: &str) -> (r: String)
    ensures r@ == s@,
{
    s.to_string()
}

/// put_rel from pointwise facts about the buffer (isolated query; the caller establishes the map-level facts)
pub proof fn lemma_put_rel(a: Screen, b: Screen, c: char, w: int)
    requires
        wf(a), a.cursor.x < a.columns, w == 1 || w == 2,
        same_but_cells_dirty_cx(b, a), b.dirty@ == a.dirty@, b.cursor.x == vmin(a.cursor.x + w, a.columns as int),
        forall|yy: u32| #![trigger b.buffer@.contains_key(yy)] yy != a.cursor.y ==> b.buffer@.contains_key(yy) == a.buffer@.contains_key(yy),
        forall|yy: u32| #![trigger b.buffer@[yy]] yy != a.cursor.y && a.buffer@.contains_key(yy) ==> b.buffer@[yy] == a.buffer@[yy],
        b.buffer@.contains_key(a.cursor.y),
        forall|xx: u32| #![trigger b.buffer@[a.cursor.y]@.contains_key(xx)] xx != a.cursor.x && !(w == 2 && xx == a.cursor.x + 1 && xx < a.columns) ==>
            b.buffer@[a.cursor.y]@.contains_key(xx) == (a.buffer@.contains_key(a.cursor.y) && a.buffer@[a.cursor.y]@.contains_key(xx)),
        forall|xx: u32| #![trigger b.buffer@[a.cursor.y]@[xx]] xx != a.cursor.x && !(w == 2 && xx == a.cursor.x + 1 && xx < a.columns)
            && a.buffer@.contains_key(a.cursor.y) && a.buffer@[a.cursor.y]@.contains_key(xx) ==> b.buffer@[a.cursor.y]@[xx] == a.buffer@[a.cursor.y]@[xx],
        b.buffer@[a.cursor.y]@.contains_key(a.cursor.x) && cv(b.buffer@[a.cursor.y]@[a.cursor.x]) == attr_cell(a, seq![c]),
        w == 2 && a.cursor.x + 1 < a.columns ==> b.buffer@[a.cursor.y]@.contains_key((a.cursor.x + 1) as u32)
            && cv(b.buffer@[a.cursor.y]@[(a.cursor.x + 1) as u32]) == attr_cell(a, ""@),
    ensures
        put_rel(a, c, w, b),
{
    assert forall|y: u32, x: u32| #![trigger obs(b, y, x)] y < a.lines && x < a.columns implies obs(b, y, x) == (
        if y == a.cursor.y && x == a.cursor.x { attr_cell(a, seq![c]) }
        else if w == 2 && y == a.cursor.y && x == a.cursor.x + 1 { attr_cell(a, ""@) }
        else { obs(a, y, x) }) by {
        if y != a.cursor.y && a.buffer@.contains_key(y) { assert(b.buffer@[y] == a.buffer@[y]); }
    }
}

/// comb_rel from pointwise facts about the buffer (isolated query)
pub proof fn lemma_comb_rel(a: Screen, b: Screen, c: char)
    requires
        wf(a),
        same_but_cells_dirty(b, a),
        b.dirty@ == (if a.cursor.x == 0 && a.cursor.y > 0 { a.dirty@.insert((a.cursor.y - 1) as u32) } else { a.dirty@ }),
        // rows: nothing disappears; new rows are the cursor row and (if any) the target row
        forall|yy: u32| #![trigger b.buffer@.contains_key(yy)] a.buffer@.contains_key(yy) ==> b.buffer@.contains_key(yy),
        // every cell other than the target keeps its observable value
        forall|yy: u32, xx: u32| #![trigger cell_at(b.buffer@, b.mode@.contains(DECSCNM), yy, xx)] yy < a.lines && xx < a.columns
            && !(!(a.cursor.x == 0 && a.cursor.y == 0)
                 && yy == (if a.cursor.x > 0 { a.cursor.y as int } else { a.cursor.y - 1 })
                 && xx == (if a.cursor.x > 0 { a.cursor.x - 1 } else { a.columns - 1 }))
            ==> obs(b, yy, xx) == obs(a, yy, xx),
        // the target cell
        !(a.cursor.x == 0 && a.cursor.y == 0) ==> ({
            let ty = (if a.cursor.x > 0 { a.cursor.y as int } else { a.cursor.y - 1 }) as u32;
            let tx = (if a.cursor.x > 0 { a.cursor.x - 1 } else { a.columns - 1 }) as u32;
            obs(b, ty, tx) == (Cell { data: nfc(obs(a, ty, tx).data).push(c), ..obs(a, ty, tx) })
        }),
    ensures
        comb_rel(a, c, b),
{
}

// ---- define_charset (C20): the MAPS table (lazy_static HashMap<&str,[char;256]>) as an abstract lookup -------
pub uninterp spec fn ibmpc_map() -> [char; 256];
pub uninterp spec fn vax42_map() -> [char; 256];
/// the designator table as documented (pyte / console_codes): B = Latin-1, 0 = VT100 graphics, U = IBM PC (CP437), V = VAX42.
/// The MAPS initialiser of src/charset.rs is verified against this in unit `tables`.
pub open spec fn maps_lookup(code: Seq<char>) -> Option<[char; 256]> {
    if code == "B"@ { Some(lat1_map()) } else if code == "0"@ { Some(vt100_map()) } else if code == "U"@ { Some(ibmpc_map()) }
    else if code == "V"@ { Some(vax42_map()) } else { None }
}
/// TRUSTED (std): `&str` hashes and compares by content; equal iff the character sequences are
#[verifier::external_body]
pub proof fn axiom_str_key_model()
    ensures vstd::std_specs::hash::obeys_key_model::<&'static str>() {}
#[verifier::external_body]
pub proof fn axiom_str_ext2(a: &str, b: &str)
    ensures (a@ == b@) == (a == b) {}
/// the four constant tables of src/charset.rs as values (`LAT1_MAP` etc. are `[char; 256]` consts, Copy)
#[verifier::external_body]
pub fn const_LAT1_MAP() -> (r: [char; 256]) ensures r == lat1_map() { unimplemented!() /* original expression: LAT1_MAP */ }
#[verifier::external_body]
pub fn const_VT100_MAP() -> (r: [char; 256]) ensures r == vt100_map() { unimplemented!() /* original expression: VT100_MAP */ }
#[verifier::external_body]
pub fn const_IBMPC_MAP() -> (r: [char; 256]) ensures r == ibmpc_map() { unimplemented!() /* original expression: IBMPC_MAP */ }
#[verifier::external_body]
pub fn const_VAX42_MAP() -> (r: [char; 256]) ensures r == vax42_map() { unimplemented!() /* original expression: VAX42_MAP */ }
#[verifier::external_body]
pub fn maps_has(code: &str) -> (r: bool)
    ensures r == maps_lookup(code@).is_some(),
{ unimplemented!() }
#[verifier::external_body]
pub fn maps_get_opt(code: &str) -> (r: Option<&'static [char; 256]>)
    ensures
        r.is_some() == maps_lookup(code@).is_some(),
        r.is_some() ==> *r.unwrap() == maps_lookup(code@).unwrap(),
{ unimplemented!() }
#[verifier::external_body]
pub fn lat1_ref() -> (r: &'static [char; 256])
    ensures *r == lat1_map(),
{ unimplemented!() }
#[verifier::external_body]
pub fn strs_eq(a: &str, b: &str) -> (r: bool)
    ensures r == (a@ == b@),
{ a == b }
pub open spec fn same_but_g0g1(a: Screen, b: Screen) -> bool {
    a.savepoints@ == b.savepoints@ && a.columns == b.columns && a.lines == b.lines && a.dirty@ == b.dirty@
    && a.margins == b.margins && a.buffer@ == b.buffer@ && a.mode@ == b.mode@ && a.title@ == b.title@
    && a.icon_name@ == b.icon_name@ && a.charset == b.charset
    && a.tabstops@ == b.tabstops@ && a.cursor == b.cursor && a.saved_columns == b.saved_columns
}
