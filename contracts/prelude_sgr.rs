// ======================================================================================================
// prelude_sgr.rs -- C08: select-graphic-rendition as a left-to-right fold over the documented table
// ======================================================================================================

// ---- TRUSTED (std): facts about String / slices that vstd does not state ----
/// `String` hashes and compares by content (std's `impl Hash/Eq for String`)
#[verifier::external_body]
pub proof fn axiom_string_key_model()
    ensures vstd::std_specs::hash::obeys_key_model::<String>() {}
/// two `String`s are equal exactly when their character sequences are
#[verifier::external_body]
pub proof fn axiom_string_ext(a: String, b: String)
    ensures (a@ == b@) == (a == b) {}
pub assume_specification<T: Clone>[<[T]>::to_vec](s: &[T]) -> (r: Vec<T>)
    ensures r@ == s@;
pub assume_specification<T>[<[T]>::reverse](s: &mut [T])
    ensures final(s)@ == old(s)@.reverse();

// ---- a HashMap<String, String> read by key *text* (all verified below, from the two axioms above) ----
pub open spec fn mhas(m: Map<String, String>, key: Seq<char>) -> bool {
    exists|k: String| #![trigger m.contains_key(k)] m.contains_key(k) && k@ == key
}
pub open spec fn mkey(m: Map<String, String>, key: Seq<char>) -> String {
    choose|k: String| #![trigger m.contains_key(k)] m.contains_key(k) && k@ == key
}
#[verifier::opaque]
pub open spec fn mget(m: Map<String, String>, key: Seq<char>) -> Option<Seq<char>> {
    if mhas(m, key) { Some(m[mkey(m, key)]@) } else { None }
}
pub proof fn lemma_mget_insert(m: Map<String, String>, k: String, v: String, key: Seq<char>)
    ensures mget(m.insert(k, v), key) == (if k@ == key { Some(v@) } else { mget(m, key) })
{
    reveal(mget);
    let m2 = m.insert(k, v);
    if k@ == key {
        assert(m2.contains_key(k));
        let kk = mkey(m2, key);
        axiom_string_ext(kk, k);
    } else {
        if mhas(m, key) {
            let k0 = mkey(m, key);
            axiom_string_ext(k0, k);
            assert(m2.contains_key(k0));
            let kk = mkey(m2, key);
            axiom_string_ext(kk, k0);
            axiom_string_ext(kk, k);
        } else {
            if mhas(m2, key) {
                let kk = mkey(m2, key);
                axiom_string_ext(kk, k);
                assert(m.contains_key(kk));
            }
        }
    }
}
pub proof fn lemma_mget_union(m: Map<String, String>, o: Map<String, String>, key: Seq<char>)
    ensures mget(m.union_prefer_right(o), key) == (if mget(o, key).is_some() { mget(o, key) } else { mget(m, key) })
{
    reveal(mget);
    let u = m.union_prefer_right(o);
    if mhas(o, key) {
        let ko = mkey(o, key);
        assert(u.contains_key(ko));
        let kk = mkey(u, key);
        axiom_string_ext(kk, ko);
    } else if mhas(m, key) {
        let km = mkey(m, key);
        assert(u.contains_key(km));
        let kk = mkey(u, key);
        axiom_string_ext(kk, km);
        assert(!o.contains_key(kk));
    } else {
        if mhas(u, key) {
            let kk = mkey(u, key);
            assert(m.contains_key(kk) || o.contains_key(kk));
        }
    }
}

/// `M.insert(K, V);` on a HashMap<String, String> -- VERIFIED wrapper (its body is the original call)
pub fn sgr_put(m: &mut HashMap<String, String>, k: String, v: String)
    ensures forall|key: Seq<char>| #![trigger mget(final(m)@, key)] mget(final(m)@, key) == (if k@ == key { Some(v@) } else { mget(old(m)@, key) })
{
    proof { axiom_string_key_model(); }
    let ghost m0 = m@;
    m.insert(k, v);
    proof {
        assert forall|key: Seq<char>| #![trigger mget(m@, key)] mget(m@, key) == (if k@ == key { Some(v@) } else { mget(m0, key) }) by {
            lemma_mget_insert(m0, k, v, key);
        }
    }
}
/// `HashMap::extend(other HashMap)` -- TRUSTED (std): right-biased union
#[verifier::external_body]
pub fn hm_extend(m: &mut HashMap<String, String>, o: HashMap<String, String>)
    ensures final(m)@ == old(m)@.union_prefer_right(o@)
{ m.extend(o) }
/// `M.extend(O);` -- VERIFIED wrapper stating the union by key text
pub fn sgr_extend(m: &mut HashMap<String, String>, o: HashMap<String, String>)
    ensures forall|key: Seq<char>| #![trigger mget(final(m)@, key)] mget(final(m)@, key) == (if mget(o@, key).is_some() { mget(o@, key) } else { mget(old(m)@, key) })
{
    let ghost m0 = m@;
    let ghost o0 = o@;
    hm_extend(m, o);
    proof {
        assert forall|key: Seq<char>| #![trigger mget(m@, key)] mget(m@, key) == (if mget(o0, key).is_some() { mget(o0, key) } else { mget(m0, key) }) by {
            lemma_mget_union(m0, o0, key);
        }
    }
}

// ---- the rendition a string map denotes when applied to a cell (CharOpts::update_from_map) ----
pub open spec fn s_true() -> Seq<char> { "true"@ }
pub open spec fn s_false() -> Seq<char> { "false"@ }
pub open spec fn pick(o: Option<Seq<char>>, d: Seq<char>) -> Seq<char> { match o { Some(v) => v, None => d } }
pub open spec fn pickb(o: Option<Seq<char>>, d: bool) -> bool { match o { Some(v) => v == s_true(), None => d } }
pub open spec fn k_data() -> Seq<char> { "data"@ }
pub open spec fn k_fg() -> Seq<char> { "fg"@ }
pub open spec fn k_bg() -> Seq<char> { "bg"@ }
pub open spec fn k_bold() -> Seq<char> { "bold"@ }
pub open spec fn k_italics() -> Seq<char> { "italics"@ }
pub open spec fn k_underscore() -> Seq<char> { "underscore"@ }
pub open spec fn k_strikethrough() -> Seq<char> { "strikethrough"@ }
pub open spec fn k_reverse() -> Seq<char> { "reverse"@ }
pub open spec fn k_blink() -> Seq<char> { "blink"@ }
pub open spec fn apply_map(m: Map<String, String>, a: Cell) -> Cell {
    Cell {
        data: pick(mget(m, k_data()), a.data), fg: pick(mget(m, k_fg()), a.fg), bg: pick(mget(m, k_bg()), a.bg),
        bold: pickb(mget(m, k_bold()), a.bold), italics: pickb(mget(m, k_italics()), a.italics),
        underscore: pickb(mget(m, k_underscore()), a.underscore), strikethrough: pickb(mget(m, k_strikethrough()), a.strikethrough),
        reverse: pickb(mget(m, k_reverse()), a.reverse), blink: pickb(mget(m, k_blink()), a.blink),
    }
}
pub proof fn lemma_apply_empty(a: Cell)
    ensures apply_map(Map::<String, String>::empty(), a) == a
{
    reveal(mget);
}
pub open spec fn b2s(b: bool) -> Seq<char> { if b { s_true() } else { s_false() } }
/// the string map of a cell (CharOpts::to_map), as far as the nine documented keys go
pub open spec fn is_map_of(m: Map<String, String>, c: Cell) -> bool {
    &&& mget(m, k_data()) == Some(c.data) &&& mget(m, k_fg()) == Some(c.fg) &&& mget(m, k_bg()) == Some(c.bg)
    &&& mget(m, k_bold()) == Some(b2s(c.bold)) &&& mget(m, k_italics()) == Some(b2s(c.italics))
    &&& mget(m, k_underscore()) == Some(b2s(c.underscore)) &&& mget(m, k_strikethrough()) == Some(b2s(c.strikethrough))
    &&& mget(m, k_reverse()) == Some(b2s(c.reverse)) &&& mget(m, k_blink()) == Some(b2s(c.blink))
}
pub proof fn lemma_keys_distinct()
    ensures
        k_data() != k_fg(), k_data() != k_bg(), k_data() != k_bold(), k_data() != k_italics(), k_data() != k_underscore(),
        k_data() != k_strikethrough(), k_data() != k_reverse(), k_data() != k_blink(),
        k_fg() != k_bg(), k_fg() != k_bold(), k_fg() != k_italics(), k_fg() != k_underscore(), k_fg() != k_strikethrough(),
        k_fg() != k_reverse(), k_fg() != k_blink(),
        k_bg() != k_bold(), k_bg() != k_italics(), k_bg() != k_underscore(), k_bg() != k_strikethrough(), k_bg() != k_reverse(),
        k_bg() != k_blink(),
        k_bold() != k_italics(), k_bold() != k_underscore(), k_bold() != k_strikethrough(), k_bold() != k_reverse(), k_bold() != k_blink(),
        k_italics() != k_underscore(), k_italics() != k_strikethrough(), k_italics() != k_reverse(), k_italics() != k_blink(),
        k_underscore() != k_strikethrough(), k_underscore() != k_reverse(), k_underscore() != k_blink(),
        k_strikethrough() != k_reverse(), k_strikethrough() != k_blink(),
        k_reverse() != k_blink(),
        s_true() != s_false(),
{
    reveal_strlit("data"); reveal_strlit("fg"); reveal_strlit("bg"); reveal_strlit("bold"); reveal_strlit("italics");
    reveal_strlit("underscore"); reveal_strlit("strikethrough"); reveal_strlit("reverse"); reveal_strlit("blink");
    reveal_strlit("true"); reveal_strlit("false");
    assert(k_data().len() == 4 && k_fg().len() == 2 && k_bg().len() == 2 && k_bold().len() == 4 && k_italics().len() == 7
        && k_underscore().len() == 10 && k_strikethrough().len() == 13 && k_reverse().len() == 7 && k_blink().len() == 5);
    assert(k_data()[0] == 'd' && k_bold()[0] == 'b' && k_fg()[0] == 'f' && k_bg()[0] == 'b' && k_italics()[0] == 'i' && k_reverse()[0] == 'r');
    assert(s_true().len() == 4 && s_false().len() == 5);
}

// ---- the documented table (C08 statement; names from console_codes(4) as used by pyte) ----
pub open spec fn fg_ansi_doc(c: u32) -> Option<Seq<char>> {
    if c == 30 { Some("black"@) } else if c == 31 { Some("red"@) } else if c == 32 { Some("green"@) } else if c == 33 { Some("brown"@) }
    else if c == 34 { Some("blue"@) } else if c == 35 { Some("magenta"@) } else if c == 36 { Some("cyan"@) } else if c == 37 { Some("white"@) }
    else if c == 39 { Some("default"@) } else { None }
}
pub open spec fn bg_ansi_doc(c: u32) -> Option<Seq<char>> {
    if c == 40 { Some("black"@) } else if c == 41 { Some("red"@) } else if c == 42 { Some("green"@) } else if c == 43 { Some("brown"@) }
    else if c == 44 { Some("blue"@) } else if c == 45 { Some("magenta"@) } else if c == 46 { Some("cyan"@) } else if c == 47 { Some("white"@) }
    else if c == 49 { Some("default"@) } else { None }
}
pub open spec fn fg_aix_doc(c: u32) -> Option<Seq<char>> {
    if c == 90 { Some("brightblack"@) } else if c == 91 { Some("brightred"@) } else if c == 92 { Some("brightgreen"@) }
    else if c == 93 { Some("brightbrown"@) } else if c == 94 { Some("brightblue"@) } else if c == 95 { Some("brightmagenta"@) }
    else if c == 96 { Some("brightcyan"@) } else if c == 97 { Some("brightwhite"@) } else { None }
}
pub open spec fn bg_aix_doc(c: u32) -> Option<Seq<char>> {
    if c == 100 { Some("brightblack"@) } else if c == 101 { Some("brightred"@) } else if c == 102 { Some("brightgreen"@) }
    else if c == 103 { Some("brightbrown"@) } else if c == 104 { Some("brightblue"@) } else if c == 105 { Some("brightmagenta"@) }
    else if c == 106 { Some("brightcyan"@) } else if c == 107 { Some("brightwhite"@) } else { None }
}
/// the entries of graphics::TEXT: "+name" sets, "-name" clears
pub open spec fn text_doc(c: u32) -> Option<Seq<char>> {
    if c == 1 { Some("+bold"@) } else if c == 3 { Some("+italics"@) } else if c == 4 { Some("+underscore"@) } else if c == 5 { Some("+blink"@) }
    else if c == 7 { Some("+reverse"@) } else if c == 9 { Some("+strikethrough"@) } else if c == 22 { Some("-bold"@) }
    else if c == 23 { Some("-italics"@) } else if c == 24 { Some("-underscore"@) } else if c == 25 { Some("-blink"@) }
    else if c == 27 { Some("-reverse"@) } else if c == 29 { Some("-strikethrough"@) } else { None }
}
/// what the statement says those codes do
pub open spec fn sgr_text(a: Cell, c: u32) -> Cell {
    if c == 1 { Cell { bold: true, ..a } } else if c == 3 { Cell { italics: true, ..a } } else if c == 4 { Cell { underscore: true, ..a } }
    else if c == 5 { Cell { blink: true, ..a } } else if c == 7 { Cell { reverse: true, ..a } } else if c == 9 { Cell { strikethrough: true, ..a } }
    else if c == 22 { Cell { bold: false, ..a } } else if c == 23 { Cell { italics: false, ..a } } else if c == 24 { Cell { underscore: false, ..a } }
    else if c == 25 { Cell { blink: false, ..a } } else if c == 27 { Cell { reverse: false, ..a } } else if c == 29 { Cell { strikethrough: false, ..a } }
    else { a }
}
/// entry n (0..=255) of the xterm 256-colour palette as lower-case rrggbb
pub open spec fn palette_rgb(n: int) -> (int, int, int) {
    if n == 0 { (0x00, 0x00, 0x00) } else if n == 1 { (0xcd, 0x00, 0x00) } else if n == 2 { (0x00, 0xcd, 0x00) } else if n == 3 { (0xcd, 0xcd, 0x00) }
    else if n == 4 { (0x00, 0x00, 0xee) } else if n == 5 { (0xcd, 0x00, 0xcd) } else if n == 6 { (0x00, 0xcd, 0xcd) } else if n == 7 { (0xe5, 0xe5, 0xe5) }
    else if n == 8 { (0x7f, 0x7f, 0x7f) } else if n == 9 { (0xff, 0x00, 0x00) } else if n == 10 { (0x00, 0xff, 0x00) } else if n == 11 { (0xff, 0xff, 0x00) }
    else if n == 12 { (0x5c, 0x5c, 0xff) } else if n == 13 { (0xff, 0x00, 0xff) } else if n == 14 { (0x00, 0xff, 0xff) } else if n == 15 { (0xff, 0xff, 0xff) }
    else if n < 232 { (cube((n - 16) / 36 % 6), cube((n - 16) / 6 % 6), cube((n - 16) % 6)) }
    else { (8 + (n - 232) * 10, 8 + (n - 232) * 10, 8 + (n - 232) * 10) }
}
pub open spec fn cube(i: int) -> int { if i == 0 { 0x00 } else if i == 1 { 0x5f } else if i == 2 { 0x87 } else if i == 3 { 0xaf } else if i == 4 { 0xd7 } else { 0xff } }
/// `format!("{:02x}{:02x}{:02x}", r, g, b)` for r, g, b <= 255: six lower-case hex digits (uninterpreted: std formatting)
pub uninterp spec fn hex6(r: int, g: int, b: int) -> Seq<char>;
pub open spec fn palette(n: int) -> Seq<char> { let t = palette_rgb(n); hex6(t.0, t.1, t.2) }

pub open spec fn set_col(a: Cell, fg: bool, v: Seq<char>) -> Cell { if fg { Cell { fg: v, ..a } } else { Cell { bg: v, ..a } } }
/// the extended-colour forms; attrs[i] is 38 (fg) or 48 (bg). Returns (index after the consumed parameters, cell).
pub open spec fn sgr_ext(attrs: Seq<u32>, i: int, a: Cell, fg: bool) -> (int, Cell) {
    let n = attrs.len() as int;
    if i + 1 >= n { (n, a) }
    else if attrs[i + 1] == 5 {
        if i + 2 >= n { (n, a) }
        else if attrs[i + 2] < 256 { (i + 3, set_col(a, fg, palette(attrs[i + 2] as int))) }
        else { (i + 3, a) }
    } else if attrs[i + 1] == 2 {
        if i + 4 >= n { (n, a) }
        else if attrs[i + 2] <= 255 && attrs[i + 3] <= 255 && attrs[i + 4] <= 255 {
            (i + 5, set_col(a, fg, hex6(attrs[i + 2] as int, attrs[i + 3] as int, attrs[i + 4] as int)))
        } else { (i + 5, a) }
    } else { (i + 2, a) }
}
pub open spec fn sgr_step(attrs: Seq<u32>, i: int, a: Cell, dflt: Cell) -> (int, Cell) {
    let c = attrs[i];
    if c == 0 { (i + 1, dflt) }
    else if fg_ansi_doc(c).is_some() { (i + 1, Cell { fg: fg_ansi_doc(c).unwrap(), ..a }) }
    else if bg_ansi_doc(c).is_some() { (i + 1, Cell { bg: bg_ansi_doc(c).unwrap(), ..a }) }
    else if text_doc(c).is_some() { (i + 1, sgr_text(a, c)) }
    else if fg_aix_doc(c).is_some() { (i + 1, Cell { fg: fg_aix_doc(c).unwrap(), ..a }) }
    else if bg_aix_doc(c).is_some() { (i + 1, Cell { bg: bg_aix_doc(c).unwrap(), ..a }) }
    else if c == 38 { sgr_ext(attrs, i, a, true) }
    else if c == 48 { sgr_ext(attrs, i, a, false) }
    else { (i + 1, a) }
}
pub open spec fn sgr_run(attrs: Seq<u32>, i: int, a: Cell, dflt: Cell) -> Cell
    decreases attrs.len() - i
{
    if i < 0 || i >= attrs.len() { a }
    else {
        let st = sgr_step(attrs, i, a, dflt);
        if st.0 <= i { a } else { sgr_run(attrs, st.0, st.1, dflt) }
    }
}
/// C08: the rendition after `CSI attrs m` (an empty list is a reset)
pub open spec fn sgr(attrs: Seq<u32>, a: Cell, dflt: Cell) -> Cell {
    if attrs.len() == 0 { dflt } else { sgr_run(attrs, 0, a, dflt) }
}

/// the parameter stack: attrs[i..] reversed (the code pops from the back)
pub open spec fn rev_tail(attrs: Seq<u32>, i: int) -> Seq<u32> {
    Seq::new((attrs.len() - i) as nat, |j: int| attrs[attrs.len() - 1 - j])
}
pub proof fn lemma_rev_tail_pop(attrs: Seq<u32>, i: int)
    requires 0 <= i < attrs.len(),
    ensures
        rev_tail(attrs, i).len() == attrs.len() - i,
        rev_tail(attrs, i).last() == attrs[i],
        rev_tail(attrs, i).drop_last() == rev_tail(attrs, i + 1),
{
    assert(rev_tail(attrs, i).drop_last() =~= rev_tail(attrs, i + 1));
}
pub proof fn lemma_rev_tail_end(attrs: Seq<u32>)
    ensures rev_tail(attrs, attrs.len() as int) == Seq::<u32>::empty(), rev_tail(attrs, 0) == attrs.reverse(),
{
    assert(rev_tail(attrs, attrs.len() as int) =~= Seq::<u32>::empty());
    assert(rev_tail(attrs, 0) =~= attrs.reverse());
}

// ---- call-outs for the lazy_static tables of src/graphics.rs (TRUSTED here: contents; see unit `graphics`) ----
#[verifier::external_body]
pub fn tblhas_FG_ANSI(k: u32) -> (r: bool) ensures r == fg_ansi_doc(k).is_some() { unimplemented!() /* original expression: FG_ANSI.contains_key(&k) */ }
#[verifier::external_body]
pub fn tblhas_BG_ANSI(k: u32) -> (r: bool) ensures r == bg_ansi_doc(k).is_some() { unimplemented!() /* original expression: BG_ANSI.contains_key(&k) */ }
#[verifier::external_body]
pub fn tblhas_FG_AIXTERM(k: u32) -> (r: bool) ensures r == fg_aix_doc(k).is_some() { unimplemented!() /* original expression: FG_AIXTERM.contains_key(&k) */ }
#[verifier::external_body]
pub fn tblhas_BG_AIXTERM(k: u32) -> (r: bool) ensures r == bg_aix_doc(k).is_some() { unimplemented!() /* original expression: BG_AIXTERM.contains_key(&k) */ }
#[verifier::external_body]
pub fn tblhas_TEXT(k: u32) -> (r: bool) ensures r == text_doc(k).is_some() { unimplemented!() /* original expression: TEXT.contains_key(&k) */ }
#[verifier::external_body]
pub fn tblget_FG_ANSI(k: u32) -> (r: String) requires fg_ansi_doc(k).is_some() ensures r@ == fg_ansi_doc(k).unwrap() { unimplemented!() /* original expression: FG_ANSI[&k].clone() */ }
#[verifier::external_body]
pub fn tblget_BG_ANSI(k: u32) -> (r: String) requires bg_ansi_doc(k).is_some() ensures r@ == bg_ansi_doc(k).unwrap() { unimplemented!() /* original expression: BG_ANSI[&k].clone() */ }
#[verifier::external_body]
pub fn tblget_FG_AIXTERM(k: u32) -> (r: String) requires fg_aix_doc(k).is_some() ensures r@ == fg_aix_doc(k).unwrap() { unimplemented!() /* original expression: FG_AIXTERM[&k].clone() */ }
#[verifier::external_body]
pub fn tblget_BG_AIXTERM(k: u32) -> (r: String) requires bg_aix_doc(k).is_some() ensures r@ == bg_aix_doc(k).unwrap() { unimplemented!() /* original expression: BG_AIXTERM[&k].clone() */ }
#[verifier::external_body]
pub fn tblref_TEXT(k: u32) -> (r: &'static String) requires text_doc(k).is_some() ensures r@ == text_doc(k).unwrap() { unimplemented!() /* original expression: &TEXT[&k] */ }
/// `FG_BG_256[i].clone()`: the palette table has 256 entries, entry i is palette(i)
#[verifier::external_body]
pub fn palette_get(i: usize) -> (r: String) requires i < 256 ensures r@ == palette(i as int) { unimplemented!() /* original expression: FG_BG_256[i].clone() */ }
/// `FG_BG_256.len()`
#[verifier::external_body]
pub fn palette_len() -> (r: usize) ensures r == 256 { unimplemented!() /* original expression: FG_BG_256.len() */ }
/// `S[1..].to_string()`: byte slicing; S must start with a one-byte (ASCII) character or the slice panics
#[verifier::external_body]
pub fn str_tail_to_string(s: &String) -> (r: String)
    requires s@.len() >= 1, (s@[0] as u32) < 128,
    ensures r@ == s@.subrange(1, s@.len() as int)
{ s[1..].to_string() }
/// `S.starts_with(C).to_string()`
#[verifier::external_body]
pub fn starts_with_char_to_string(s: &String, c: char) -> (r: String)
    ensures r@ == b2s(s@.len() >= 1 && s@[0] == c)
{ s.starts_with(c).to_string() }
/// `format!(F, r, g, b)`; specified for the one format string the property is about
pub open spec fn hex_fmt() -> Seq<char> { "{:02x}{:02x}{:02x}"@ }
#[verifier::external_body]
pub fn fmt_hex6(f: &str, r: u32, g: u32, b: u32) -> (s: String)
    ensures f@ == hex_fmt() && r <= 255 && g <= 255 && b <= 255 ==> s@ == hex6(r as int, g as int, b as int)
{ unimplemented!() /* original expression: format!(f, r, g, b) with f a literal */ }
/// `B.to_string()` for a bool
#[verifier::external_body]
pub fn bool_to_string(b: bool) -> (r: String) ensures r@ == b2s(b) { b.to_string() }

pub proof fn lemma_text_doc(c: u32)
    requires text_doc(c).is_some()
    ensures
        text_doc(c).unwrap().len() >= 1,
        (text_doc(c).unwrap()[0] as u32) < 128,
        (text_doc(c).unwrap()[0] == '+') == (c == 1 || c == 3 || c == 4 || c == 5 || c == 7 || c == 9),
        text_doc(c).unwrap().subrange(1, text_doc(c).unwrap().len() as int) ==
            (if c == 1 || c == 22 { k_bold() } else if c == 3 || c == 23 { k_italics() } else if c == 4 || c == 24 { k_underscore() }
             else if c == 5 || c == 25 { k_blink() } else if c == 7 || c == 27 { k_reverse() } else { k_strikethrough() }),
{
    reveal_strlit("+bold"); reveal_strlit("+italics"); reveal_strlit("+underscore"); reveal_strlit("+blink"); reveal_strlit("+reverse");
    reveal_strlit("+strikethrough"); reveal_strlit("-bold"); reveal_strlit("-italics"); reveal_strlit("-underscore"); reveal_strlit("-blink");
    reveal_strlit("-reverse"); reveal_strlit("-strikethrough");
    reveal_strlit("bold"); reveal_strlit("italics"); reveal_strlit("underscore"); reveal_strlit("blink"); reveal_strlit("reverse");
    reveal_strlit("strikethrough");
    let t = text_doc(c).unwrap();
    let tail = t.subrange(1, t.len() as int);
    if c == 1 || c == 22 { assert(tail =~= k_bold()); }
    else if c == 3 || c == 23 { assert(tail =~= k_italics()); }
    else if c == 4 || c == 24 { assert(tail =~= k_underscore()); }
    else if c == 5 || c == 25 { assert(tail =~= k_blink()); }
    else if c == 7 || c == 27 { assert(tail =~= k_reverse()); }
    else { assert(tail =~= k_strikethrough()); }
}

/// `V.iter().map(|&(r, g, b)| format!(F, r, g, b)).collect()` over a Vec of (r, g, b) triples
#[verifier::external_body]
pub fn rgb_vec_to_hex(f: &str, v: &Vec<(i32, i32, i32)>) -> (r: Vec<String>)
    ensures
        r@.len() == v@.len(),
        f@ == hex_fmt() ==> forall|i: int| #![trigger r@[i]] 0 <= i < v@.len() && 0 <= v@[i].0 <= 255 && 0 <= v@[i].1 <= 255 && 0 <= v@[i].2 <= 255
            ==> r@[i]@ == hex6(v@[i].0 as int, v@[i].1 as int, v@[i].2 as int),
{ unimplemented!() /* original expression: v.iter().map(|&(r, g, b)| format!(f, r, g, b)).collect() */ }

// ---- CharOpts::update_from_map: applying the string map pair by pair equals reading it by key text ----
/// the order in which a given HashMap value yields its entries (a function of the concrete map, not of its view)
pub uninterp spec fn hm_pairs(m: HashMap<String, String>) -> Seq<(String, String)>;
/// `for (key, value) in MAP` (HashMap::into_iter by value) -- TRUSTED (std): yields every entry exactly once, in some order
#[verifier::external_body]
pub fn hm_into_pairs(m: HashMap<String, String>) -> (r: Vec<(String, String)>)
    ensures
        r@ == hm_pairs(m),
        forall|i: int| #![trigger r@[i]] 0 <= i < r@.len() ==> m@.contains_key(r@[i].0) && m@[r@[i].0] == r@[i].1,
        forall|k: String| #![trigger m@.contains_key(k)] m@.contains_key(k) ==> exists|i: int| #![trigger r@[i]] 0 <= i < r@.len() && r@[i].0 == k,
{ m.into_iter().collect() }
/// `V.parse().unwrap_or(false)` at type bool -- TRUSTED (std): exactly "true" parses to true, everything else gives false
#[verifier::external_body]
pub fn parse_bool_or_false(v: &String) -> (r: bool)
    ensures r == (v@ == s_true())
{ v.parse().unwrap_or(false) }

pub open spec fn apply_one(a: Cell, k: Seq<char>, v: Seq<char>) -> Cell {
    if k == k_data() { Cell { data: v, ..a } } else if k == k_fg() { Cell { fg: v, ..a } } else if k == k_bg() { Cell { bg: v, ..a } }
    else if k == k_bold() { Cell { bold: v == s_true(), ..a } } else if k == k_italics() { Cell { italics: v == s_true(), ..a } }
    else if k == k_underscore() { Cell { underscore: v == s_true(), ..a } }
    else if k == k_strikethrough() { Cell { strikethrough: v == s_true(), ..a } }
    else if k == k_reverse() { Cell { reverse: v == s_true(), ..a } } else if k == k_blink() { Cell { blink: v == s_true(), ..a } }
    else { a }
}
pub open spec fn apply_pairs(ps: Seq<(String, String)>, n: int, a: Cell) -> Cell
    decreases n
{
    if n <= 0 { a } else { apply_one(apply_pairs(ps, n - 1, a), ps[n - 1].0@, ps[n - 1].1@) }
}
/// the value of the last of the first n pairs whose key reads `key`
pub open spec fn plookup(ps: Seq<(String, String)>, n: int, key: Seq<char>) -> Option<Seq<char>>
    decreases n
{
    if n <= 0 { None } else if ps[n - 1].0@ == key { Some(ps[n - 1].1@) } else { plookup(ps, n - 1, key) }
}
pub open spec fn apply_lookup(ps: Seq<(String, String)>, n: int, a: Cell) -> Cell {
    Cell {
        data: pick(plookup(ps, n, k_data()), a.data), fg: pick(plookup(ps, n, k_fg()), a.fg), bg: pick(plookup(ps, n, k_bg()), a.bg),
        bold: pickb(plookup(ps, n, k_bold()), a.bold), italics: pickb(plookup(ps, n, k_italics()), a.italics),
        underscore: pickb(plookup(ps, n, k_underscore()), a.underscore), strikethrough: pickb(plookup(ps, n, k_strikethrough()), a.strikethrough),
        reverse: pickb(plookup(ps, n, k_reverse()), a.reverse), blink: pickb(plookup(ps, n, k_blink()), a.blink),
    }
}
pub proof fn lemma_apply_pairs_lookup(ps: Seq<(String, String)>, n: int, a: Cell)
    requires 0 <= n <= ps.len(),
    ensures apply_pairs(ps, n, a) == apply_lookup(ps, n, a),
    decreases n
{
    lemma_keys_distinct();
    if n > 0 { lemma_apply_pairs_lookup(ps, n - 1, a); }
}
pub proof fn lemma_plookup_sound(ps: Seq<(String, String)>, n: int, key: Seq<char>)
    requires 0 <= n <= ps.len(),
    ensures
        plookup(ps, n, key).is_some() ==> exists|j: int| #![trigger ps[j]] 0 <= j < n && ps[j].0@ == key && plookup(ps, n, key) == Some(ps[j].1@),
        plookup(ps, n, key).is_none() ==> forall|j: int| #![trigger ps[j]] 0 <= j < n ==> ps[j].0@ != key,
    decreases n
{
    if n > 0 {
        lemma_plookup_sound(ps, n - 1, key);
        if ps[n - 1].0@ == key { assert(plookup(ps, n, key) == Some(ps[n - 1].1@)); }
    }
}
/// the pairs of a map (each entry once) read by key text give what the map gives
pub proof fn lemma_pairs_are_map(m: Map<String, String>, ps: Seq<(String, String)>, key: Seq<char>)
    requires
        forall|i: int| #![trigger ps[i]] 0 <= i < ps.len() ==> m.contains_key(ps[i].0) && m[ps[i].0] == ps[i].1,
        forall|k: String| #![trigger m.contains_key(k)] m.contains_key(k) ==> exists|i: int| #![trigger ps[i]] 0 <= i < ps.len() && ps[i].0 == k,
    ensures plookup(ps, ps.len() as int, key) == mget(m, key)
{
    reveal(mget);
    lemma_plookup_sound(ps, ps.len() as int, key);
    if mhas(m, key) {
        let k = mkey(m, key);
        let i = choose|i: int| #![trigger ps[i]] 0 <= i < ps.len() && ps[i].0 == k;
        assert(ps[i].0@ == key);
        assert(plookup(ps, ps.len() as int, key).is_some());
        let j = choose|j: int| #![trigger ps[j]] 0 <= j < ps.len() && ps[j].0@ == key && plookup(ps, ps.len() as int, key) == Some(ps[j].1@);
        axiom_string_ext(ps[j].0, k);
    } else {
        if plookup(ps, ps.len() as int, key).is_some() {
            let j = choose|j: int| #![trigger ps[j]] 0 <= j < ps.len() && ps[j].0@ == key && plookup(ps, ps.len() as int, key) == Some(ps[j].1@);
            assert(m.contains_key(ps[j].0));
        }
    }
}
pub proof fn lemma_pairs_apply_map(m: Map<String, String>, ps: Seq<(String, String)>, a: Cell)
    requires
        forall|i: int| #![trigger ps[i]] 0 <= i < ps.len() ==> m.contains_key(ps[i].0) && m[ps[i].0] == ps[i].1,
        forall|k: String| #![trigger m.contains_key(k)] m.contains_key(k) ==> exists|i: int| #![trigger ps[i]] 0 <= i < ps.len() && ps[i].0 == k,
    ensures apply_pairs(ps, ps.len() as int, a) == apply_map(m, a)
{
    lemma_apply_pairs_lookup(ps, ps.len() as int, a);
    lemma_pairs_are_map(m, ps, k_data()); lemma_pairs_are_map(m, ps, k_fg()); lemma_pairs_are_map(m, ps, k_bg());
    lemma_pairs_are_map(m, ps, k_bold()); lemma_pairs_are_map(m, ps, k_italics()); lemma_pairs_are_map(m, ps, k_underscore());
    lemma_pairs_are_map(m, ps, k_strikethrough()); lemma_pairs_are_map(m, ps, k_reverse()); lemma_pairs_are_map(m, ps, k_blink());
}

// ---- C09: every reported cell has a documented colour name or a hexadecimal colour ----
pub open spec fn named_colour(s: Seq<char>) -> bool {
    s == "default"@ || s == "black"@ || s == "red"@ || s == "green"@ || s == "brown"@ || s == "blue"@ || s == "magenta"@ || s == "cyan"@
    || s == "white"@ || s == "brightblack"@ || s == "brightred"@ || s == "brightgreen"@ || s == "brightbrown"@ || s == "brightblue"@
    || s == "brightmagenta"@ || s == "brightcyan"@ || s == "brightwhite"@
}
/// six hexadecimal digits (uninterpreted, like hex6: std formatting is not modelled)
pub uninterp spec fn is_hex_colour(s: Seq<char>) -> bool;
/// TRUSTED (std formatting): `{:02x}{:02x}{:02x}` of three values <= 255 is six hexadecimal digits
#[verifier::external_body]
pub proof fn axiom_hex6_is_hex(r: int, g: int, b: int)
    requires 0 <= r <= 255, 0 <= g <= 255, 0 <= b <= 255,
    ensures is_hex_colour(hex6(r, g, b)) {}
pub open spec fn valid_colour(s: Seq<char>) -> bool { named_colour(s) || is_hex_colour(s) }
pub open spec fn cell_cols_ok(c: Cell) -> bool { valid_colour(c.fg) && valid_colour(c.bg) }
#[verifier::opaque]
pub open spec fn saves_cols_ok(sv: Seq<Savepoint>) -> bool {
    forall|i: int| #![trigger sv[i]] 0 <= i < sv.len() ==> cell_cols_ok(cv(sv[i].cursor.attr))
}
pub open spec fn cols_ok(s: Screen) -> bool {
    &&& cell_cols_ok(cv(s.cursor.attr))
    &&& forall|y: u32, x: u32| #![trigger obs(s, y, x)] y < s.lines && x < s.columns ==> cell_cols_ok(obs(s, y, x))
    &&& saves_cols_ok(s.savepoints@)
}
pub proof fn lemma_palette_valid(n: int)
    requires 0 <= n < 256,
    ensures is_hex_colour(palette(n))
{
    let t = palette_rgb(n);
    axiom_hex6_is_hex(t.0, t.1, t.2);
}
pub proof fn lemma_sgr_step_cols(attrs: Seq<u32>, i: int, a: Cell, dflt: Cell)
    requires 0 <= i < attrs.len(), cell_cols_ok(a), cell_cols_ok(dflt),
    ensures cell_cols_ok(sgr_step(attrs, i, a, dflt).1)
{
    let c = attrs[i];
    if c == 38 || c == 48 {
        let n = attrs.len() as int;
        if i + 1 < n && attrs[i + 1] == 5 && i + 2 < n && attrs[i + 2] < 256 { lemma_palette_valid(attrs[i + 2] as int); }
        if i + 1 < n && attrs[i + 1] == 2 && i + 4 < n && attrs[i + 2] <= 255 && attrs[i + 3] <= 255 && attrs[i + 4] <= 255 {
            axiom_hex6_is_hex(attrs[i + 2] as int, attrs[i + 3] as int, attrs[i + 4] as int);
        }
    }
}
pub proof fn lemma_sgr_run_cols(attrs: Seq<u32>, i: int, a: Cell, dflt: Cell)
    requires cell_cols_ok(a), cell_cols_ok(dflt),
    ensures cell_cols_ok(sgr_run(attrs, i, a, dflt))
    decreases attrs.len() - i
{
    if 0 <= i < attrs.len() {
        lemma_sgr_step_cols(attrs, i, a, dflt);
        let st = sgr_step(attrs, i, a, dflt);
        if st.0 > i { lemma_sgr_run_cols(attrs, st.0, st.1, dflt); }
    }
}

// ---- C09 for draw: each step relation of draw's contract preserves colour validity (lemmas over the relations) ----
pub open spec fn cols_frame(a: Screen, b: Screen) -> bool {
    a.lines == b.lines && a.columns == b.columns && a.cursor.attr == b.cursor.attr && a.savepoints@ == b.savepoints@
}
pub proof fn lemma_cols_same_grid(a: Screen, b: Screen)
    requires cols_ok(a), cols_frame(a, b), obs_same(b, a),
    ensures cols_ok(b)
{
    assert forall|y: u32, x: u32| #![trigger obs(b, y, x)] y < b.lines && x < b.columns implies cell_cols_ok(obs(b, y, x)) by {
        let c = obs(a, y, x);
    }
}
/// colour validity is preserved from a to b (opaque: SGR's body is verified without the grid quantifier in its context)
#[verifier::opaque]
pub open spec fn cols_pres(a: Screen, b: Screen) -> bool { cols_ok(a) ==> cols_ok(b) }
/// only the cursor rendition changed (SGR)
pub proof fn lemma_cols_attr_change(a: Screen, b: Screen)
    requires a.lines == b.lines, a.columns == b.columns, a.savepoints@ == b.savepoints@, obs_same(b, a),
        cell_cols_ok(cv(a.cursor.attr)) ==> cell_cols_ok(cv(b.cursor.attr)),
    ensures cols_pres(a, b)
{
    reveal(cols_pres);
    if cols_ok(a) {
        assert forall|y: u32, x: u32| #![trigger obs(b, y, x)] y < b.lines && x < b.columns implies cell_cols_ok(obs(b, y, x)) by {
            let c = obs(a, y, x);
        }
    }
}
pub proof fn lemma_linefeed_cols(o: Screen, n: Screen)
    requires cols_ok(o), margins_ok(o.margins, o.lines), linefeed_post(o, n),
    ensures cols_ok(n), margins_ok(n.margins, n.lines)
{
    reveal(linefeed_post);
    assert forall|y: u32, x: u32| #![trigger obs(n, y, x)] y < n.lines && x < n.columns implies cell_cols_ok(obs(n, y, x)) by {
        let c = obs(o, y, x); let c2 = obs(o, (y + 1) as u32, x);
    }
}
pub proof fn lemma_wrap_cols(a: Screen, w: int, b: Screen)
    requires cols_ok(a), margins_ok(a.margins, a.lines), wrap_rel(a, w, b),
    ensures cols_ok(b), margins_ok(b.margins, b.lines)
{
    if a.cursor.x == a.columns && a.mode@.contains(DECAWM) {
        let m = choose|m: Screen| #[trigger] cr_mark(a, m) && linefeed_post(m, b);
        lemma_cols_same_grid(a, m);
        lemma_linefeed_cols(m, b);
    } else {
        lemma_cols_same_grid(a, b);
    }
}
pub proof fn lemma_irm_cols(a: Screen, w: int, b: Screen)
    requires cols_ok(a), margins_ok(a.margins, a.lines), irm_rel(a, w, b),
    ensures cols_ok(b), margins_ok(b.margins, b.lines)
{
    if a.mode@.contains(IRM) && w > 0 {
        reveal(ich_post);
        assert forall|y: u32, x: u32| #![trigger obs(b, y, x)] y < b.lines && x < b.columns implies cell_cols_ok(obs(b, y, x)) by {
            let c = obs(a, y, x); let c2 = obs(a, y, (x - eff(Some(w as u32))) as u32);
        }
    } else {
        lemma_cols_same_grid(a, b);
    }
}
pub proof fn lemma_put_cols(a: Screen, c: char, w: int, b: Screen)
    requires cols_ok(a), margins_ok(a.margins, a.lines), put_rel(a, c, w, b),
    ensures cols_ok(b), margins_ok(b.margins, b.lines)
{
    assert forall|y: u32, x: u32| #![trigger obs(b, y, x)] y < b.lines && x < b.columns implies cell_cols_ok(obs(b, y, x)) by {
        let k = obs(a, y, x);
    }
}
pub proof fn lemma_comb_cols(a: Screen, c: char, b: Screen)
    requires cols_ok(a), margins_ok(a.margins, a.lines), comb_rel(a, c, b),
    ensures cols_ok(b), margins_ok(b.margins, b.lines)
{
    assert forall|y: u32, x: u32| #![trigger obs(b, y, x)] y < b.lines && x < b.columns implies cell_cols_ok(obs(b, y, x)) by {
        let k = obs(a, y, x);
    }
}
pub proof fn lemma_draw_char_cols(a: Screen, c: char, b: Screen)
    requires cols_ok(a), margins_ok(a.margins, a.lines), draw_char(a, c, b),
    ensures cols_ok(b), margins_ok(b.margins, b.lines)
{
    let w = width_of(c);
    if w == 0 && !is_comb(c) {
        lemma_cols_same_grid(a, b);
    } else {
        let (a1, a2) = choose|a1: Screen, a2: Screen| #![trigger wrap_rel(a, w, a1), irm_rel(a1, w, a2)]
            wrap_rel(a, w, a1) && irm_rel(a1, w, a2) && (if w >= 1 { put_rel(a2, c, w, b) } else { comb_rel(a2, c, b) });
        lemma_wrap_cols(a, w, a1);
        lemma_irm_cols(a1, w, a2);
        if w >= 1 { lemma_put_cols(a2, c, w, b); } else { lemma_comb_cols(a2, c, b); }
    }
}
pub proof fn lemma_draw_seq_cols(a: Screen, t: Seq<char>, b: Screen)
    requires cols_ok(a), margins_ok(a.margins, a.lines), draw_seq(a, t, b),
    ensures cols_ok(b), margins_ok(b.margins, b.lines)
    decreases t.len()
{
    if t.len() > 0 {
        let m = choose|m: Screen| #![trigger draw_char(m, t.last(), b)] draw_seq(a, t.drop_last(), m) && draw_char(m, t.last(), b);
        lemma_draw_seq_cols(a, t.drop_last(), m);
        lemma_draw_char_cols(m, t.last(), b);
    }
}
