// ---- TRUSTED: specifications of std functions vstd does not cover (generic facts about std, not about memterm) ----
pub assume_specification<T, E>[Result::<T, E>::unwrap_or](r: Result<T, E>, default: T) -> (v: T)
    ensures v == (match r { Ok(x) => x, Err(_) => default });
pub uninterp spec fn string_capacity(s: String) -> int;
pub assume_specification[String::with_capacity](n: usize) -> (r: String)
    ensures r@ == Seq::<char>::empty(), string_capacity(r) >= n;
