#!/bin/bash
# tools/par_mutant.sh <tag> <patch.diff> <prop>... : evaluate a seeded change on a private copy of /repo (safe to run in parallel)
tag=$1; patch=$2; shift 2
w=/tmp/verif_par_$tag
rm -rf $w; mkdir -p $w && cp -r /repo/src /repo/Cargo.toml /repo/Cargo.lock $w/ || exit 2
(cd $w && git apply --unsafe-paths $patch 2>/dev/null || patch -p1 -s -i $patch) || { echo "$tag: patch does not apply"; rm -rf $w; exit 2; }
for p in "$@"; do
  out=$(cd /verif && VERIF_REPO=$w VERIF_BUILD=/verif/build/par_$tag VERIF_EVIDENCE_DIR=/verif/build/par_$tag/evidence ./check $p 2>&1); rc=$?
  echo "== $tag $p exit=$rc"; echo "$out" | grep -v "^WARNING conda" | tail -3
done
rm -rf $w
