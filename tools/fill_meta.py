#!/usr/bin/env python3
"""tools/fill_meta.py <round> <desc.json> <prompt note> : complete seeded/<id>/meta.json (description, what it needs, what I ran) for one round"""
import json, os, sys
rnd, desc, note = int(sys.argv[1]), json.load(open(sys.argv[2])), sys.argv[3]
base = os.popen('git -C /repo rev-parse --short HEAD').read().strip()
for sid, (change, needs) in sorted(desc.items()):
    d = '/verif/seeded/%s' % sid
    mp = d + '/meta.json'
    old = json.load(open(mp)) if os.path.exists(mp) else {}
    log = open(d + '/confirm.log').read().strip().split('\n')
    meta = dict(id=sid, property=sid[:3], round=rnd, change=change, needs_to_manifest=needs,
                author='independent sub-agent given only the property text and a scratch worktree (nothing from /verif); ' + note,
                confirmed_by_me=dict(commands=['git apply patch.diff', 'cargo test --offline --lib', 'cargo test --offline --test demo', 'git checkout -- src', 'cargo test --offline --test demo'],
                                     lib_tests_with_change=log[0], demo_with_change=log[1], demo_without_change=log[2]))
    for k in ('status', 'detected_by', 'failing_obligations', 'undecided_because', 'check_summary'):
        if k in old: meta[k] = old[k]
    meta['base_commit'] = base
    json.dump(meta, open(mp, 'w'), indent=1)
print('filled', len(desc))
