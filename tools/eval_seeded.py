#!/usr/bin/env python3
"""tools/eval_seeded.py [id ...] : run the check of the owning property against every seeded change (seeded/<id>/patch.diff)
and record the outcome in seeded/<id>/meta.json.  Changes touching only files the Verus units read are evaluated on private
copies under /tmp (4 at a time); changes touching files the Kani crate depends on (path dependency on /repo) are applied to
/repo one at a time and undone straight afterwards (git -C /repo checkout -- .)."""
import concurrent.futures
import glob
import json
import os
import re
import subprocess
import sys

VERIF = '/verif'
KANI_FILES = ('parser_listener.rs', 'control.rs', 'charset.rs', 'modes.rs')


def sh(cmd, **kw):
    return subprocess.run(cmd, shell=True, stdout=subprocess.PIPE, stderr=subprocess.STDOUT, text=True, **kw)


def parse(out):
    viol = re.findall(r'VIOLATION property=\S+ replay=\S*?/violations/\w+?__(\S+?)\.json', out)
    und = re.search(r'UNDECIDED property=\S+: [^:]*: (.*)', out)
    summ = re.search(r'(C\d\d: \d+/\d+ obligations.*)', out)
    return viol, (und.group(1)[:300] if und else None), (summ.group(1) if summ else None)


def eval_par(sid, prop):
    p = sh('cd %s && tools/par_mutant.sh %s %s/seeded/%s/patch.diff %s' % (VERIF, sid, VERIF, sid, prop))
    m = re.search(r'exit=(\d+)', p.stdout)
    return int(m.group(1)) if m else 2, p.stdout


def eval_serial(sid, prop):
    p = sh('cd %s && tools/try_mutant.sh %s/seeded/%s/patch.diff %s' % (VERIF, VERIF, sid, prop))
    m = re.search(r'-> exit=(\d+)', p.stdout)
    return int(m.group(1)) if m else 2, p.stdout


def record(sid, prop, rc, out):
    viol, und, summ = parse(out)
    mp = os.path.join(VERIF, 'seeded', sid, 'meta.json')
    meta = json.load(open(mp)) if os.path.exists(mp) else dict(id=sid, property=prop)
    meta['status'] = {0: 'NOT DETECTED', 1: 'detected', 2: 'undecided'}[rc]
    meta['detected_by'] = './check %s -> exit %d' % (prop, rc)
    meta['failing_obligations'] = ', '.join(v.replace('_sig_', '/sig#', 1) if False else v for v in viol)
    meta['undecided_because'] = und
    meta['check_summary'] = summ
    json.dump(meta, open(mp, 'w'), indent=1)
    print('%-7s %-12s %s' % (sid, meta['status'], (meta['failing_obligations'] or und or '')[:150]), flush=True)


def main():
    ids = sys.argv[1:] or sorted(os.path.basename(d) for d in glob.glob(os.path.join(VERIF, 'seeded', 'C*')))
    par, ser = [], []
    for sid in ids:
        diff = open(os.path.join(VERIF, 'seeded', sid, 'patch.diff')).read()
        files = re.findall(r'(?m)^\+\+\+ b/src/(\S+)', diff)
        (ser if any(f in KANI_FILES for f in files) else par).append(sid)
    with concurrent.futures.ThreadPoolExecutor(int(os.environ.get('EVAL_LANES', '4'))) as ex:
        futs = {ex.submit(eval_par, sid, sid[:3]): sid for sid in par}
        for f in concurrent.futures.as_completed(futs):
            sid = futs[f]
            rc, out = f.result()
            record(sid, sid[:3], rc, out)
    for sid in ser:
        rc, out = eval_serial(sid, sid[:3])
        record(sid, sid[:3], rc, out)


if __name__ == '__main__':
    main()
