#!/bin/bash
# tools/confirm_mutant.sh <worktree> <PROP> <letter>  -- confirm a delivered seeded change myself, then file it under /verif/seeded/
wt=$1; P=$2; L=$3; S=${4:-$3}   # optional 4th argument: suffix to file it under (round 2: a->c, b->d)
id=${P}_${S}
cd $wt || exit 2
git checkout -q -- src; mkdir -p tests
git apply --check out/$L.diff || { echo "$id: patch does not apply"; exit 1; }
git apply out/$L.diff
lib=$(cargo test --offline --lib 2>&1 | grep -E "^test result" | head -1)
cp out/demo_${P}_$L.rs tests/
with=$(cargo test --offline --test demo_${P}_$L 2>&1 | grep -E "^test result" | head -1)
git checkout -q -- src
without=$(cargo test --offline --test demo_${P}_$L 2>&1 | grep -E "^test result" | head -1)
rm -f tests/demo_${P}_$L.rs; rmdir tests 2>/dev/null; rm -f parser_log.txt
echo "$id | lib with change: $lib | demo with change: $with | demo without: $without"
ok=1
echo "$lib" | grep -q "91 passed; 0 failed" || ok=0
echo "$with" | grep -q "FAILED" || ok=0
echo "$without" | grep -q "ok\." || ok=0
if [ $ok = 1 ]; then
  d=/verif/seeded/$id; mkdir -p $d
  cp out/$L.diff $d/patch.diff; cp out/demo_${P}_$L.rs $d/demo_${P}_$S.rs
  printf '%s\n' "$lib" "$with" "$without" > $d/confirm.log
  echo "$id CONFIRMED"
else
  echo "$id NOT CONFIRMED"
fi
