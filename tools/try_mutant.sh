#!/bin/bash
# tools/try_mutant.sh <patch.diff> <prop>...   apply a seeded change to /repo, run the checks, undo it
patch=$1; shift
cd /repo || exit 2
git apply --check "$patch" || { echo "patch does not apply"; exit 2; }
git apply "$patch"
mkdir -p /verif/build/mutant_evidence
for p in "$@"; do (cd /verif && VERIF_EVIDENCE_DIR=/verif/build/mutant_evidence ./check $p 2>&1 | grep -v "^WARNING conda" | tail -4; echo "  -> exit=${PIPESTATUS[0]}"); done
git -C /repo checkout -- .
git -C /repo status --short | grep -v parser_log
