#!/bin/bash
# tools/try_mutant.sh <patch.diff> <prop>...   apply a seeded change to /repo, run the checks, undo it
patch=$1; shift
cd /repo || exit 2
git apply --check "$patch" || { echo "patch does not apply"; exit 2; }
git apply "$patch"
for p in "$@"; do (cd /verif && ./check $p 2>&1 | grep -v "^WARNING conda" | tail -4; echo "  -> exit=${PIPESTATUS[0]}"); done
git -C /repo checkout -- .
git -C /repo status --short | grep -v parser_log
