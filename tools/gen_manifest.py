#!/usr/bin/env python3
"""Regenerates /verif/MANIFEST.json from the table below (keeps it schema-valid)."""
import json, os
V = os.path.dirname(os.path.dirname(os.path.abspath(__file__)))
props = [json.loads(l)['id'] for l in open(os.path.join(V, 'properties.jsonl'))]

VERUS_NOTE = ("Trusted: Verus 0.2026.09.13 + Z3, vstd's std specs, the assume_specifications and shims listed in the evidence "
              "trusted_base (each allow-listed in contracts/trusted.allow), the weaver (mitigated by the round-trip substring check "
              "and the canary pass), geometry cap 65535, API args <= 9999. Induction over call histories is argued in DESIGN.md.")

CLAIMED = {
 'C08': dict(
    text="Deductive proof on the verbatim select_graphic_rendition that the cursor rendition after the call equals sgr(attrs, old rendition, blank): the left-to-right "
         "fold of the parameter list over the documented table -- 0 resets (to the screen's blank rendition), 1/3/4/5/7/9 set and 22/23/24/25/27/29 clear the six flags, "
         "30-37,39 / 40-47,49 / 90-97 / 100-107 select the named colours, 38/48;5;n the palette entry n for n <= 255, 38/48;2;r;g;b the colour rrggbb for components <= 255, "
         "unknown codes and malformed / out-of-range / truncated extended forms are ignored while consuming exactly the parameters the documented parser consumes -- for "
         "parameter lists of ANY length and any u32 values; nothing but cursor.attr changes (no cell, whole-state frame) and its text stays a space. The five name tables and "
         "the 256-entry palette of src/graphics.rs are verified entry by entry on their initialiser blocks (xterm cube/grey formulas as an independent spec). CharOpts::to_map "
         "and CharOpts::update_from_map are verified (the map applied pair by pair equals the map read by key text, for every iteration order); hex rendering by format! is uninterpreted (hex6). "
         "Routing of `CSI ... m` to the function with the whole list: Kani dispatch harness.",
    design="5 C08", technique="Verus contracts: recursive spec fold + loop invariant on the verbatim body (15-way case split of the loop body), verified initialiser blocks of the lazy_static tables",
    note="As the general note, plus: HashMap<String,String> is read by key text through two std axioms (String key model, String extensionality); insert/extend go through verified wrappers; "
         "ASSUMED: HashMap::into_iter yields every entry exactly once, parse::<bool> is true exactly for \"true\", `format!(\"{:02x}{:02x}{:02x}\")` = hex6, a lazy_static deref yields its initialiser's value, slice to_vec/reverse, HashMap::extend = right-biased union."),
 'C05': dict(
    text="Deductive proof, for all geometries <= 65535^2, all cursor positions incl. pending wrap, all margins, DECOM on/off and all "
         "parameters in {absent} U [0,9999], that each of cursor_up/down/forward/back/up1/down1/to_column/to_line/position, backspace and "
         "cariage_return leaves exactly the closed-form position of the property statement and changes nothing else (whole-state frame). "
         "The functions are extracted verbatim from /repo/src/screen.rs on every run and verified by Verus against contracts woven in.",
    design="5 C05", technique="Verus contracts (requires/ensures + whole-state frame) on the verbatim function bodies"),
 'C07': dict(
    text="Deductive proof that erase_characters, erase_in_line and erase_in_display leave, for every cell (y,x) of the grid, exactly "
         "`cursor rendition + space` inside the documented range and the previous observable cell outside it (whole-grid postcondition "
         "over the abstract view obs(y,x), so absent and materialised cells are treated alike), change nothing but cells and dirty rows, "
         "ignore unsupported selectors, and are not restricted by margins/DECOM (they do not occur in the range predicates). All "
         "geometries <= 65535^2, all cursor positions incl. pending wrap, all selectors/counts in {absent} U [0,9999].",
    design="5 C07", technique="Verus contracts + loop invariants on the verbatim bodies (one type-checked Box<dyn>->Range rewrite in erase_in_line)"),
 'C13': dict(
    text="Deductive proof that insert_characters / delete_characters produce, for every cell of the grid, exactly the list-splice "
         "result of the statement (blank default cells inserted at the cursor / appended at the right end, the rest of the row shifted "
         "by the count, every other row and the cursor untouched), for never-written as well as materialised rows, and that they "
         "re-establish the representation invariant `no cell is stored outside the visible grid` -- which is what makes 'discarded "
         "characters never reappear' a per-call obligation instead of a statement about edit sequences. IRM drawing is draw()'s contract (C04).",
    design="5 C13", technique="Verus contracts + loop invariants over the row map on the verbatim bodies; wf item 'no hidden cells' as pre/postcondition"),
 'C06': dict(
    text="Deductive proof, for every geometry, region, cursor row and count in {absent} U [0,9999], that index/linefeed at the bottom margin "
         "and reverse_index at the top margin move every row of the region by exactly one (row-level postcondition over the observable "
         "cells, so never-written rows are covered), blank the vacated row, leave rows outside the region and the cursor row untouched, and "
         "away from the margin only move the cursor; that insert_lines/delete_lines act only inside the region, shift rows cursor..bottom by "
         "min(n, available), blank the vacated rows and return the cursor to column 0; and that set_margins accepts exactly regions of >= 2 rows "
         "after clamping, homes the cursor (DECOM-aware) and is removed by `CSI r`.",
    design="5 C06", technique="Verus contracts + row-shift loop invariants on the verbatim bodies"),
 'C12': dict(
    text="Deductive proof on the verbatim set_mode/reset_mode that the stored mode set becomes old U / \\ {n<<5 if private else n : n in list} for every list "
         "of numbers <= 65535 (not a table of the supported ones), that a list containing none of DECCOLM/DECOM/DECSCNM/DECTCEM (after shifting) changes "
         "nothing but the mode set, and that each supported mode has exactly its documented side effect: DECTCEM hidden flag; DECOM homes (region-aware); "
         "DECSCNM sets/clears reverse on every observable cell incl. never-written ones, on the current rendition, and marks all rows dirty; DECCOLM "
         "saves/restores the width, resizes, erases every cell with the current rendition and homes. IRM/LNM/DECAWM are read by draw/linefeed (linefeed's LNM clause is proved; draw is C04).",
    design="5 C12", technique="Verus contracts on the verbatim bodies; iterator-adapter expressions called out to 7 trusted one-line shims; SGR 7/27 effect proved in unit sgr",
    note="As the general note, plus: the effect of select_graphic_rendition for [7]/[27] (reverse on/off on the current rendition only) is imported from unit sgr, where it is proved (C08). "
         "The shims vec_from_slice/slice_map_collect/vec_any_eq/hs_extend_vec/hs_minus_vec/buffer_set_reverse/hs_extend_range are trusted one-liners whose bodies are the original expressions. Termination of the set_mode->resize->restore_cursor->set_mode cycle is proved with decreases clauses."),
 'C14': dict(
    text="Deductive proof that save_cursor pushes an exact snapshot (position, rendition, visibility, G0/G1/shift state, DECOM/DECAWM flags) and changes nothing else, and that "
         "restore_cursor pops the last entry, reinstates it with the position clamped into the current screen/region, re-enables DECOM/DECAWM iff saved, and on an empty stack homes "
         "and clears DECOM; neither touches cells, margins, tab stops or dirty rows. LIFO order for nested saves is the Seq push/drop_last algebra of these two contracts plus the "
         "frame clause `savepoints unchanged` carried by every other operation under contract (resize proves it although it pushes and pops internally).",
    design="5 C14", technique="Verus contracts (Seq push / drop_last view of the savepoint stack) on the verbatim bodies"),
 'C16': dict(
    text="Deductive proof on the verbatim resize(): same size is a complete no-op (every component, incl. dirty); otherwise every cell of the new grid equals the old cell shifted by "
         "max(old_lines-new_lines,0) rows where it overlaps and is blank elsewhere, the region is reset, dirty is exactly the rows of the new screen, savepoints/modes/rendition are unchanged, "
         "and the representation invariant holds again (cursor inside, nothing stored outside the new grid) -- the last item is what makes 'discarded content never reappears on a later grow' "
         "a per-call obligation. All sizes 1..65535 in both dimensions, all pre-states (margins, DECOM, pending wrap).",
    design="5 C16", technique="Verus contract on the verbatim body (2 trusted shims: values_mut column trim, tuple assignment split) using the contracts of delete_lines/save/restore"),
 'C09': dict(
    text="The representation invariant wf (geometry 1..65535, cursor y < lines and x <= columns, margins absent or top < bottom <= lines-1, every dirty index < lines, "
         "nothing stored outside the visible grid, cursor rendition text is a space, saved columns in range) is a postcondition of Screen::new and both a pre- and a postcondition "
         "of every mutator under contract (see functions_under_contract), proved for all states and arguments; display() is proved to return exactly `lines` strings. By induction "
         "over call histories the invariant holds after every history built from those operations. NOT covered: draw() and select_graphic_rendition() (SGR's preservation of wf is an "
         "assumed contract; the fg/bg-colour clause of the statement depends on SGR and is not decided), define_charset, and the parser glue.",
    design="5 C09", technique="Verus: representation invariant as requires/ensures of every operation under contract (induction over histories argued, not machine-checked)"),
 'C10': dict(
    text="Deductive proof on the verbatim display() (closure and column loop included) that row y of the result is the left-to-right concatenation of the observable cells' texts, "
         "skipping the cell after a double-width lead and rendering never-written cells as blanks (recursive spec render_map over the abstract view), that every observable cell and every "
         "other state component is unchanged, and that wf is kept. Purity with respect to later operations follows because every other contract is stated over the abstract view "
         "obs(y,x) (inline cell_at(buffer, DECSCNM, y, x)), never over presence/absence of cells: an operation that told materialised from absent cells apart could not satisfy its own "
         "view-level postcondition (this is how the delete_lines defect surfaced).",
    design="5 C10", technique="Verus contract on the verbatim body incl. closure requires/ensures; for-with-continue desugared by the Rust reference rule; 3 trusted string shims"),
 'C15': dict(
    text="Deductive proof that Screen::new(c,l) and reset() both end in the state is_init(c,l): empty grid, all rows dirty, cursor home/visible/default rendition, no margins, mode set "
         "exactly {DECAWM, DECTCEM}, empty title/icon, G0 selected with G0=LAT1 and G1=VT100 tables, tab stops exactly the multiples of 8 in [8, columns), no saved width -- with the "
         "saved-cursor stack untouched by reset. Equal states then evolve equally under every operation whose contract is a function of the abstract view (all operations under contract).",
    design="5 C15", technique="Verus contracts on the verbatim reset()/new() against one shared initial-state predicate (lazy_static tables called out; contents checked by Kani)"),
 'C17': dict(
    text="Every mutator under contract carries a dirty-set clause proved for all states: the rows it may change are in the set afterwards (erase/insert/delete: cursor row or the affected "
         "row range; scroll, DECALN, DECSCNM, DECCOLM, reset: every row; resize: exactly the rows of the new screen), rows are only ever added otherwise, and wf keeps every index < lines. "
         "NOT covered: draw() (not under contract yet), so the combining-mark-on-previous-row clause of the statement is not decided here.",
    design="5 C17", technique="Verus: per-operation dirty-set postconditions + wf item `dirty indices < lines`"),
 'C18': dict(
    text="Deductive proof that reset/new leave tab stops at exactly the multiples of 8 in [8, columns); set_tab_stop adds the cursor column; clear_tab_stop removes it for selector 0/absent, "
         "removes all for 3 and does nothing otherwise; tab() moves to the least stop strictly right of the cursor clamped to the last column, or to the last column if there is none, never "
         "beyond it, and changes nothing else -- for every stop set, cursor column incl. pending wrap and width.",
    design="5 C18", technique="Verus contracts on the verbatim bodies (tab(): collect+sort called out to a trusted `sorted elements` shim, reference pattern rewritten)"),
 'C02': dict(
    text="Deductive proof on the verbatim Parser::feed that the observable parser state (abstract world = suspended coroutine + shared listener; plus the taking_plain_text flag) after "
         "feed(data) is the left fold of a per-character step over data's characters -- the step being exactly feed's branch structure (fast path / special start / resume coroutine) "
         "over ASSUMED deterministic effects of listener.draw and of resuming the coroutine. Three lemmas then give the property: fold(fold(s,a),b) == fold(s,a+b) (any chunking of a "
         "character stream), fold(s,"") == s (empty chunks), and for bytes: ByteParser::feed (verbatim) threads the streaming-decoder state and hands exactly the decoded characters "
         "(or the 1:1 Latin-1 mapping in 8-bit mode) to Parser::feed once, so with the ASSUMED streaming law of encoding_rs, byte chunk a then b == a+b at any offset.",
    design="5 C02", technique="Verus contract: state after feed == fold(step, state, input); chunking = fold-concatenation lemma (induction)",
    note="ASSUMED (not verified): generator-rs resumes the coroutine where it yielded and the coroutine + listener are deterministic functions of (state, char) that touch nothing but the shared world; "
         "encoding_rs::Decoder::decode_to_string(.., last=false) with max_utf8_buffer_length capacity is a streaming decoder (axiom_dec_stream). The FSM closure itself is not verified here (C03)."),
 'C11': dict(
    text="Memterm's own part of byte decoding, proved on the verbatim ByteParser::feed: in UTF-8 mode every input byte is handed to the streaming decoder exactly once, in order, together with the "
         "carried decoder state, and exactly the decoder's output is handed to Parser::feed, once, in order; in 8-bit mode the characters handed on are exactly data.map(|b| b as char) "
         "(the closure is verified); the mode flag is not changed by feeding. ByteParser::new is under contract: the decoder it creates starts in the state of a decoder WITHOUT byte-order-mark handling "
         "(a BOM-sniffing decoder swallows a leading EF BB BF: that was a genuine defect, fixed), Parser::new's result assumed fresh; select_other_charset: `@` switches to 8-bit mode and installs a fresh decoder, "
         "`G`/`8` switch back keeping the decoder, anything else changes nothing; the decoder is never used after it was finished. That the decoder IS conforming streaming UTF-8 with maximal-subpart replacement is encoding_rs's contract and is ASSUMED.",
    design="5 C11", technique="Verus contracts on the verbatim ByteParser::{new, feed, select_other_charset} over an abstract streaming-decoder state",
    note="ASSUMED: encoding_rs (external crate, SIMD/unsafe) implements WHATWG streaming UTF-8 decoding (without BOM handling when created so); Parser::new is not under contract."),
 'C01': dict(
    text="Every function under contract carries, for ALL states satisfying the representation invariant and all arguments absent or <= 65535, the implicit obligations that no "
         "u32/i32/usize operation overflows, no unwrap/expect/panic!/index is reachable, and every callee's precondition holds; each also re-establishes the invariant, so the next call's "
         "precondition holds (induction over call histories). Covered this way: every ParserListener method of Screen (incl. draw, display, select_graphic_rendition, define_charset, "
         "resize with any size 1..65535), Parser::feed and ByteParser::feed (nothing but the assumed coroutine/listener/decoder steps can fail), and by Kani the three dispatchers for every "
         "final byte and parameter list. Loops: all are `for` loops over finite ranges/iterators; Verus proves termination for each (decreases), incl. the set_mode/resize/restore_cursor recursion. "
         "The recogniser closure is covered by unit F (no failing unwrap/index, no parameter above 9999 reaches the screen). NOT covered (stated gap): Parser::new/ByteParser::new, encoding_rs/generator-rs internals, a mutex guard held across a yield (deadlock: no contract here sees it).",
    design="5 C01", technique="Verus implicit safety obligations + wf pre/postconditions on the verbatim functions; Kani for the dispatchers",
    note="As the general note. A hang caused by lock ordering (listener mutex held across a coroutine yield) is NOT detectable by this check."),
 'C03': dict(
    text="The shipping recogniser -- the body of the closure passed to Gn::new_scoped in Parser::new, #[cfg(not(test))] copy, cut out mechanically on every run (and compared with the "
         "#[cfg(test)] copy) -- is verified by Verus as a non-terminating procedure whose every yield carries the trace invariant as a precondition: the calls received by the listener so "
         "far equal, as a sequence, the events the documented grammar prescribes for the characters consumed so far, and the value yielded signals 'ground' exactly when the grammar's state "
         "is ground. The grammar is an explicit-state recogniser (spec fn step/run) written from the property statement: C0 controls, ESC-final, ESC # / % / ( ), CSI with decimal parameters "
         "(empty = 0, saturating at 9999 for digit runs of ANY length -- dec_val is a mathematical integer), ?, embedded controls, CAN/SUB, SP and >, $; OSC with BEL / U+009C / ESC \\. Unbounded: inputs of any "
         "length, both parser modes. Kani proves, loop-free over the full domain, that csi_/escape_/basic_dispatch route every final byte to the documented method with the documented parameter "
         "positions and do nothing for unknown finals, and that the control tables/constants have the assumed values. The fast path of Parser::feed is composed with the recogniser by a verified lemma (lemma_feed_grammar, unit parser): the fold Parser::feed is proved to compute emits exactly the documented grammar's events "
         "(in the ground state a character outside the documented SPECIAL set is text, everything else is the recogniser's step) and keeps taking_plain_text == (state is Ground), for data of any length; "
         "Parser::is_special_start and the SPECIAL table's initialiser block are verified against that documented set.",
    design="5 C03", technique="Verus trace-invariant proof of the extracted recogniser closure (precondition on every yield) + verified composition lemma with Parser::feed's fold contract + contracts on is_special_start/SPECIAL + Kani full-domain dispatch proofs",
    note="ASSUMED: generator-rs is a faithful coroutine (co.yield_ returns the next single character sent; the priming send is never read); Arc<Mutex<_>> used single-threaded; the shared use_utf8 flag is constant during a trace; "
         "~20 one-line string call-outs (String==&str, contains, parse::<u64>, push, skip(1).collect, ...) listed in trusted_base; println! dropped. The one link between units parser and fsm is a definition: parser_fsm.send(c) is one step of the grammar from the coroutine's position, which is what unit F proves of the closure text between two yields."),
 'C19': dict(
    text="Unit F (see C03) proves for OSC strings of ANY length and content that the recogniser emits set_icon_name for code 0/1 and set_title for code 0/2 with exactly the characters between the first "
         "character after the code and the terminator (BEL, U+009C or ESC \\; a backslash, `;`, ESC x pairs and C0 controls other than BEL stay in the payload), nothing for other codes, no draw event for any "
         "character of the sequence, and returns to ground; an empty payload sets the empty string. Verus proves set_title/set_icon_name store exactly their argument and change nothing else (grid, cursor untouched). Chunking: C02.",
    design="5 C19", technique="Verus trace-invariant proof of the recogniser's OSC loop + contracts on set_title/set_icon_name",
    note="As C03."),
 'C20': dict(
    text="Kani proves all 768 entries of LAT1_MAP, VT100_MAP and IBMPC_MAP against independently generated references (symbolic index over the full domain). Verus proves: shift_in/shift_out select G0/G1 and nothing else; "
         "new/reset start with G0=LAT1, G1=VT100; define_charset installs the looked-up table into G0 for mode '(' and G1 for ')' and ignores unknown codes/modes; draw's translation closure maps every code point <= 255 through the "
         "active table and passes larger ones through; and (unit F) in UTF-8 mode SO/SI and `ESC ( x` / `ESC ) x` produce no event while in 8-bit mode they call shift_out/shift_in/define_charset(x, mode).",
    design="5 C20", technique="Kani full-domain table proofs + Verus contracts (Screen side) + unit F (parser side)",
    note="The designator table MAPS (B/0/U/V -> LAT1/VT100/IBMPC/VAX42, nothing else) is verified on its lazy_static initialiser block (unit tables); trusted: a lazy_static deref yields its initialiser's value, &str key model/extensionality. NOT verified: the contents of VAX42_MAP (no independent reference offline)."),
 'C04': dict(
    text="Deductive proof on the verbatim draw() (unit `draw`; callees' contracts imported from unit `screen`, where they are proved) that the final state is related to the initial one by "
         "draw_seq over the G0/G1-translated text (translation closure verified): for every state and every character, first wrap_rel (pending wrap + DECAWM: mark the row, CR, linefeed incl. "
         "scroll at the bottom margin; DECAWM off: step back onto the last column(s)), then irm_rel (insert mode shifts the rest of the row by the width), then put_rel (lead cell, and an empty "
         "placeholder for width 2, carrying the cursor's rendition; cursor advances to min(x+w, columns); every other cell, and everything but cursor and dirty rows, unchanged) or comb_rel "
         "(zero-width combining mark appended to the previous cell / the last cell of the previous row, which is marked dirty); other zero-width or unprintable characters change nothing. "
         "Unbounded in geometry (<= 65535^2), text length and state. The loop body is verified by an 8-way case split (width x IRM x cursor column), each arm a separate Verus query that "
         "first asserts exhaustiveness of the arms.",
    design="5 C04", technique="Verus contract: per-character relational semantics from the statement + trace predicate draw_seq over the verbatim loop; case-split queries",
    note="As the general note, plus: unicode-width and is_combining_mark are uninterpreted (ASSUMED: a width is absent, 0, 1 or 2); NFC is uninterpreted; "
         "the eight `assume(case_k)` statements are arms of a case split whose exhaustiveness is asserted in every variant."),
}
NA = {}
checks = []
for p in props:
    if p in CLAIMED:
        c = CLAIMED[p]
        checks.append(dict(property_id=p, quick_cmd="./check %s --tier quick" % p, thorough_cmd="./check %s --tier thorough" % p,
                           evidence_file="evidence/%s.json" % p, replay_cmd_template="./check --replay {path}", engine="weave+verus",
                           level_claimed=dict(category="proof", text=c['text'], design_ref=c['design']),
                           level_note=c.get('note', VERUS_NOTE), technique=c['technique']))
m = dict(version=1,
         setup_cmd="cd /verif/replay && CARGO_NET_OFFLINE=true cargo build --offline --quiet",
         hooks=dict(guard="memterm_verif", enable="no hooks: checks extract the source text of /repo/src/*.rs on every run; Kani/replay crates use a path dependency on /repo",
                    baseline_off_cmd="cd /repo && cargo test --workspace --no-fail-fast --offline", source_commits=[], add_only=True),
         engines=[dict(name="weave+verus", path="weave/", serves_properties=sorted(CLAIMED), kind_free_text="extract real functions by name, weave contracts, verify with Verus (SMT, unbounded), canary pass for vacuity, trusted-base allow-list scan"),
                  dict(name="replay", path="replay/", serves_properties=sorted(CLAIMED), kind_free_text="plain binary linked against /repo that runs JSON scripts on the real code (violation replay, findings)")],
         checks=checks,
         notes="Contract-based deductive verification of the real code; see DESIGN.md.",
         not_applicable=[dict(property_id=p, reason=NA.get(p, "no check built")) for p in props if p not in CLAIMED])
json.dump(m, open(os.path.join(V, 'MANIFEST.json'), 'w'), indent=1)
print('claimed', sorted(CLAIMED))
