#!/bin/bash
# tools/run_regression_staged.sh : 2 refactor lanes (edits on the code put under contract last first) + seeded changes (EVAL_LANES, ids given as arguments or all)
cd /verif; mkdir -p /verif/build/refactor_logs
(EVAL_LANES=${EVAL_LANES:-4} tools/eval_seeded.py "$@" > /verif/build/refactor_logs/eval_staged.log 2>&1; echo EVALDONE >> /verif/build/refactor_logs/eval_staged.log) &
lane() { for t in "$@"; do tools/par_refactor.sh $t /verif/seeded/refactors/$t.diff; done; }
(lane REF10_r1 REF10_r2 REF10_r4 REF10_r5 REF6_r1 REF6_r2 REF6_r5 REF8_r5 REF8_r6 REF9_r7 REF9_r8 REF7_r3 REF7_r4 REF7_r5 REF9_r1 REF9_r2 REF9_r3 REF5_r1 REF5_r2 REF5_r3 REF4_r2 REF4_r3 > /verif/build/refactor_logs/st_a.log 2>&1) &
(lane REF10_r3 REF10_r6 REF7_r1 REF7_r2 REF7_r6 REF8_r1 REF8_r2 REF8_r3 REF9_r4 REF9_r5 REF9_r6 REF5_r4 REF5_r5 REF5_r6 REF4_r4 REF4_r5 REF4_r6 > /verif/build/refactor_logs/st_b.log 2>&1) &
wait
for t in REF6_r3 REF6_r4 REF6_r6 REF8_r4; do tools/try_refactor.sh /verif/seeded/refactors/$t.diff; done > /verif/build/refactor_logs/st_d.log 2>&1
echo ALLDONE >> /verif/build/refactor_logs/st_d.log
