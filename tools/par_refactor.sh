#!/bin/bash
# tools/par_refactor.sh <tag> <diff> : apply a behaviour-preserving edit to a private copy of /repo's sources (under /tmp),
# run EVERY claimed check against it and report exit codes (any exit 1 is a false alarm).  Only for edits that do not touch
# the files the Kani crate reads (those go through tools/try_refactor.sh on /repo itself).
tag=$1; patch=$2
w=/tmp/verif_par_$tag
rm -rf $w; mkdir -p $w && cp -r /repo/src /repo/Cargo.toml /repo/Cargo.lock $w/ || exit 2
(cd $w && git apply --unsafe-paths $patch 2>/dev/null || patch -p1 -s -i $patch) || { echo "$tag: patch does not apply"; rm -rf $w; exit 2; }
res=""
for p in $(python3 -c "import json; print(' '.join(c['property_id'] for c in json.load(open('/verif/MANIFEST.json'))['checks']))"); do
  out=$(cd /verif && VERIF_REPO=$w VERIF_BUILD=/verif/build/par_$tag VERIF_EVIDENCE_DIR=/verif/build/par_$tag/evidence ./check $p 2>&1); rc=$?
  res="$res $p=$rc"
  if [ $rc -ne 0 ]; then echo "--- $tag $p exit=$rc"; echo "$out" | grep -v "^WARNING conda" | tail -3; fi
done
echo "RESULT $tag:$res"
rm -rf $w /verif/build/par_$tag
