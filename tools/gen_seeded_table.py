#!/usr/bin/env python3
"""rewrite the seeded-changes table of DESIGN.md (between the SEEDED-TABLE markers) from seeded/*/meta.json"""
import glob, json, re
metas = [json.load(open(m)) for m in sorted(glob.glob('/verif/seeded/C*/meta.json'))]
rows = []
for m in metas:
    st = m.get('status')
    why = (m.get('failing_obligations') or '') if st == 'detected' else (m.get('undecided_because') or '')
    why = why.replace('|', '\\|')
    why = why.split(' (note:')[0][:140] if st != 'detected' else ', '.join(why.split(', ')[:3])
    rows.append('| %s | %s | %s | %s |' % (m['id'], (m.get('change') or '')[:110].replace('|', '\\|'), st, why))
det = sum(1 for m in metas if m.get('status') == 'detected')
und = sum(1 for m in metas if m.get('status') == 'undecided')
missed = sum(1 for m in metas if m.get('status') == 'NOT DETECTED')
other = len(metas) - det - und - missed
head = '**%d changes: %d detected (exit 1, failing obligation named), %d undecided (exit 2), %d missed%s.**' % (
    len(metas), det, und, missed, (', %d not a violation of the property it was written for (see its row)' % other) if other else '')
table = head + '\n(Obligation ids are shown as they appear in the replay file names: `/` and `#` as `_`.)\n\n| id | change | verdict | failing obligation(s) / why undecided |\n|---|---|---|---|\n' + '\n'.join(rows) + '\n'
p = '/verif/DESIGN.md'
s = open(p).read()
s = re.sub(r'<!--SEEDED-TABLE-->.*?<!--/SEEDED-TABLE-->', '<!--SEEDED-TABLE-->\n' + table + '<!--/SEEDED-TABLE-->', s, flags=re.S)
open(p, 'w').write(s)
print(head)
