#!/bin/bash
# dev helper: weave a unit and run verus (optionally on one function):  tools/v.sh screen [Screen::fn] [extra verus args]
unit=${1:-screen}; shift
fn=$1; case "$fn" in --*) fn="";; *) [ -n "$fn" ] && shift;; esac
mkdir -p /verif/build/dev
python3 /verif/weave/weave.py /verif/contracts/$unit.spec ${VERIF_REPO:-/repo} /verif/build/dev/$unit.rs || exit 2
cd /verif/build/dev
if [ -n "$fn" ]; then
  verus $unit.rs --multiple-errors 20 --verify-root --verify-function "$fn" "$@" 2>&1 | grep -v "^WARNING conda" | grep -v "recommendation not met" 
else
  verus $unit.rs --multiple-errors 20 --num-threads 8 "$@" 2>&1 | grep -v "^WARNING conda" | grep -v "recommendation not met"
fi
