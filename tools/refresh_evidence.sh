#!/bin/bash
# re-run every claimed check on /repo's current (clean) tree so that the committed evidence comes from the unchanged tree
cd /verif
[ -z "$(git -C /repo status --porcelain -- src Cargo.toml)" ] || { echo "/repo has uncommitted changes"; exit 2; }
for p in $(python3 -c "import json; print(' '.join(c['property_id'] for c in json.load(open('MANIFEST.json'))['checks']))"); do
  ./check $p | tail -1
done
