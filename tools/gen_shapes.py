#!/usr/bin/env python3
"""tools/gen_shapes.py : record the statement-structure fingerprint (weave.fn_shape) of every function under contract on the
current (verified) tree in contracts/shapes.json.  Run after the contracts verify on the unchanged tree."""
import glob, json, os, sys
sys.path.insert(0, '/verif/weave'); sys.path.insert(0, '/verif/contracts')
import weave as W, shims
out = {}
for sp in sorted(glob.glob('/verif/contracts/*.spec')):
    if os.path.exists('/verif/contracts/shapes.json'):
        pass
    u, text, info = W.build_unit(sp, '/repo', '/verif/contracts', shims.SHIMS)
    out[u.name] = {f: dict(fi['shape'], shims=fi.get('shim_counts', {})) for f, fi in info.items() if fi.get('shape') and not fi['extern']}
json.dump(out, open('/verif/contracts/shapes.json', 'w'), indent=1, sort_keys=True)
print(sum(len(v) for v in out.values()), 'shapes')
