#!/bin/bash
# tools/try_refactor.sh <diff> : apply a behaviour-preserving edit, run EVERY claimed check, report any exit 1 (false alarm)
d=$1
cd /repo || exit 2
git apply --check "$d" || { echo "$d: does not apply"; exit 2; }
git apply "$d"
mkdir -p /verif/build/mutant_evidence
res=""
for p in $(python3 -c "import json; print(' '.join(c['property_id'] for c in json.load(open('/verif/MANIFEST.json'))['checks']))"); do
  out=$(cd /verif && VERIF_EVIDENCE_DIR=/verif/build/mutant_evidence ./check $p 2>&1); rc=$?
  res="$res $p=$rc"
  if [ $rc -ne 0 ]; then echo "--- $d $p exit=$rc"; echo "$out" | grep -v "^WARNING conda" | tail -3; fi
done
echo "RESULT $d:$res"
git -C /repo checkout -- .
